#!/bin/sh
# usage: selftest/indpipe.sh [timeout seconds]   Apalache on spec/IndPipe.tla (run in a scratch copy):
#   base:  MCInit => IndInv            step: IndInv /\ MCNext => IndInv'            safe: IndInv => Safe
# Not part of any registered check (see DESIGN.md section 9 for what finished in this sandbox).
set -u
to="${1:-2400}"
tmp=$(mktemp -d /tmp/indpipe.XXXXXX)
cp /verif/spec/Pipeline.tla /verif/spec/MCPipeline.tla /verif/spec/apalache/IndPipe.tla "$tmp/"
cd "$tmp"
for job in "base --init=MCInit --inv=IndInv --length=0" "safe --init=IndInit --inv=Safe --length=0" "step --init=IndInit --inv=IndInv --length=1"; do
  name=${job%% *}; args=${job#* }
  s=$(date +%s)
  timeout "$to" apalache-mc check --cinit=CInit --next=MCNext $args IndPipe.tla > "$name.log" 2>&1
  echo "$name: $(grep -E 'EXITCODE|outcome' "$name.log" | tr '\n' ' ') ($(( $(date +%s) - s )) s)"
done
cd /; rm -rf "$tmp"
