#!/bin/sh
# usage: selftest/try_seed.sh <worktree> <seed dir> <demo pkg dir> <demo file> <-run regexp> <test pkgs> -- <check id>...
# Confirms a candidate seeded change in a scratch worktree (patch applies, builds,
# the named packages' existing tests pass, the demo fails with it and passes
# without) and runs the quick checks against the changed worktree.
set -u
export GOFLAGS=-mod=mod GOPROXY=off GOSUMDB=off GOTOOLCHAIN=local
wt="$1"; sd="$2"; pkg="$3"; demo="$4"; re="$5"; tests="$6"; shift 7
cd "$wt" && git checkout -q -- . && git clean -fdq
cp "$sd/$demo" "$wt/$pkg/"
(cd "$wt" && go test ${TAGS:+-tags $TAGS} -vet=off -count=1 -timeout 10m -run "$re" "./$pkg/" > /tmp/try.$$.a 2>&1); a=$?
git -C "$wt" apply "$sd/patch.diff" || { echo "patch does not apply"; exit 2; }
(cd "$wt" && go build ./... ) || { echo "does not build"; exit 2; }
(cd "$wt" && go test ${TAGS:+-tags $TAGS} -vet=off -count=1 -timeout 10m -run "$re" "./$pkg/" > /tmp/try.$$.b 2>&1); b=$?
rm -f "$wt/$pkg/$demo"
(cd "$wt" && go test -vet=off -count=1 -timeout 20m $tests > /tmp/try.$$.c 2>&1); c=$?
echo "$sd: demo without change exit $a, with change exit $b; existing tests ($tests) with change exit $c"
[ $c -ne 0 ] && grep -E "^(FAIL|---)" /tmp/try.$$.c | head
rm -f /tmp/try.$$.*
/verif/selftest/against.sh "$wt" "$@"
cd "$wt" && git checkout -q -- . && git clean -fdq
