#!/bin/sh
# usage: selftest/seeded.sh <seeded dir name> <check id>...   applies the seeded
# change to /repo, runs the checks (quick tier), and undoes the change.
set -u
cd /verif
d="seeded/$1"; shift
git -C /repo diff --quiet || { echo "/repo has uncommitted changes"; exit 2; }
git -C /repo apply "/verif/$d/patch.diff" || exit 2
for c in "$@"; do
  ./check "$c" --tier quick > "/tmp/seeded-$c.out" 2>&1
  rc=$?
  echo "$d $c: exit $rc, $(grep -c '^VIOLATION' /tmp/seeded-$c.out) VIOLATION lines"
done
git -C /repo checkout -- .
