#!/usr/bin/env python3
"""Binding self-test: recorded traces of the real code are corrupted in one
field (or one line is removed) and TraceStore must reject every corrupted
trace while accepting the original.  Guards against a vacuous trace spec."""
import copy, json, os, random, sys
sys.path.insert(0, os.path.join(os.path.dirname(os.path.dirname(os.path.abspath(__file__))), "lib"))
import common
from store_checks import *


def mutations(lines, rng):
    out = []
    idx = {a: [i for i, l in enumerate(lines) if l["a"] == a] for a in set(l["a"] for l in lines)}
    qr = [i for i in idx.get("QueryResult", []) if lines[i]["rows"]]
    if qr:
        i = rng.choice(qr)
        m = copy.deepcopy(lines)
        m[i]["rows"][0][4] += 1
        out.append(("count+1 in a query row", m))
        m = copy.deepcopy(lines)
        m[i]["rows"].append(["zz=9", 2, "f", 1, 1])
        out.append(("spurious row", m))
        m = copy.deepcopy(lines)
        del m[i]["rows"][0]
        out.append(("row removed from a result", m))
    # an Apply whose effect is observed later: a query result or a flush of the same table
    # follows (dropping the very last apply of a trace leaves a valid, shorter behaviour)
    ap = [i for i in idx.get("Apply", []) if lines[i].get("data") and
          any(l["a"] in ("QueryResult", "FlushSwap") and l.get("t") == lines[i].get("t") for l in lines[i + 1:])]
    if ap:
        i = rng.choice(ap)
        m = copy.deepcopy(lines)
        del m[i]
        out.append(("Apply line removed", m))
        m = copy.deepcopy(lines)
        m[i]["data"] = not m[i]["data"]
        out.append(("Apply data flag flipped", m))
    for name, field in (("FlushRename", "off"), ("OffWrite", "off")):
        if idx.get(name):
            i = rng.choice(idx[name])
            m = copy.deepcopy(lines)
            m[i][field] += 1
            out.append((name + " offset+1", m))
    op = [i for i in idx.get("Open", []) if i > 5]
    if op:
        i = rng.choice(op)
        m = copy.deepcopy(lines)
        m[i]["off"] += 1
        out.append(("recovered offset+1", m))
    fb = idx.get("FlushBegin", [])
    if fb:
        i = rng.choice(fb)
        m = copy.deepcopy(lines)
        m[i]["noRaw"] = not m[i]["noRaw"]
        out.append(("FlushBegin noRaw flipped", m))
    return out


def main():
    rng = random.Random(7)
    bins = common.build()
    work = common.scratch("selftest")
    menu = random_menu(rng, 5)
    hs = sim_scripts(MC_TABLES, menu, CODE_FLAGS, 6, 40, 3, os.path.join(work, "sim"), max_flushes=5, max_crashes=2)
    scs = [scenario_from_hist("st-%d" % j, MC_TABLES, menu, h) for j, h in enumerate(hs)]
    tr = common.run_shards(bins["zvstore"], [{k: v for k, v in s.items() if k != "menu"} for s in scs], os.path.join(work, "run"))
    f, v, _, n = validate(MC_TABLES, tr, CODE_FLAGS, ALL_INVS, os.path.join(work, "tlc0"))
    ok = True
    if f or v:
        print("FAIL: original traces not accepted", f, v)
        ok = False
    mut = {}
    kinds = {}
    for scn, lines in tr.items():
        for k, (what, m) in enumerate(mutations(lines, rng)):
            name = "%s-m%d" % (scn, k)
            m[0] = dict(m[0], scn=name)
            mut[name] = m
            kinds[name] = what
    f, v, _, n = validate(MC_TABLES, mut, CODE_FLAGS, ALL_INVS, os.path.join(work, "tlc1"))
    missed = [(s, kinds[s]) for s in mut if s not in f]
    print("%d corrupted traces, %d rejected" % (len(mut), len(mut) - len(missed)))
    for s, what in missed:
        print("NOT REJECTED:", s, what)
        ok = False
    import shutil
    shutil.rmtree(work, ignore_errors=True)
    print("binding self-test", "ok" if ok else "FAILED")
    return 0 if ok else 1


if __name__ == "__main__":
    sys.exit(main())
