#!/bin/sh
# usage: selftest/against.sh <repo dir> <check id>...   runs the quick tier of
# the checks from a private copy of /verif against another tree (a scratch
# worktree with a seeded change applied), leaving /repo and /verif untouched.
set -u
repo="$1"; shift
tmp=$(mktemp -d /tmp/verif-copy.XXXXXX)
rsync -a --exclude .git --exclude .scratch --exclude .build --exclude replays --exclude evidence /verif/ "$tmp/"
mkdir -p "$tmp/evidence"
cd "$tmp"
for c in "$@"; do
  ZV_REPO="$repo" ZV_SCRATCH="$tmp/.scratch" ./check "$c" --tier "${VERIF_TIER:-quick}" > "$tmp/$c.out" 2>&1
  rc=$?
  echo "$repo $c: exit $rc, $(grep -c '^VIOLATION' $tmp/$c.out) VIOLATION lines"
  grep -A1 '^VIOLATION' "$tmp/$c.out" | head -${SHOW:-6}
  [ $rc -eq 2 ] && tail -5 "$tmp/$c.out"
done
cd /; rm -rf "$tmp"
