#!/usr/bin/env python3
"""Binding self-test for spec/TraceWire.tla: the message trace of a real rpc
cluster run is accepted; with one digest changed, one message dropped, two
messages swapped or the closing error hidden it must be rejected."""
import copy, json, os, random, sys
sys.path.insert(0, os.path.join(os.path.dirname(os.path.dirname(os.path.abspath(__file__))), "lib"))
import common, wire_checks


def main():
    rng = random.Random(7)
    bins = common.build(("zvwire",))
    work = common.scratch("binding-wire")
    sc = wire_checks.wire_scenario("bw", rng, 2, 0, 6, faults=True)
    traces = common.run_shards(bins["zvwire"], [sc], os.path.join(work, "run"), nproc=1)
    lines = traces["bw"]
    fails, viol, nses, nlines = wire_checks.validate_wire({"bw": lines}, os.path.join(work, "tv0"))
    print("original: %d sessions, %d lines, rejected %d" % (nses, nlines, len(fails)))
    ok = not fails and nses > 0
    msgs = [i for i, l in enumerate(lines) if l["a"] == "Msg"]
    lrows = [i for i in msgs if lines[i]["side"] == "leader" and lines[i]["kind"] == "row"]
    frows = [i for i in msgs if lines[i]["side"] == "follower" and lines[i]["kind"] == "row"]
    fend = [i for i in msgs if lines[i]["side"] == "follower" and lines[i]["kind"] == "end" and lines[i]["d"] == "error"]
    muts = []
    m = copy.deepcopy(lines); m[rng.choice(lrows)]["d"] += "x"; muts.append(("digest of a row received by the leader changed", m))
    m = copy.deepcopy(lines); del m[rng.choice(frows)]; muts.append(("a row sent by the follower removed (the leader received something never sent)", m))
    m = copy.deepcopy(lines); i = rng.choice(lrows); m[i]["kind"] = "fields"; muts.append(("a row received as a field list", m))
    if fend:
        m = copy.deepcopy(lines); i = fend[0]
        # the leader's matching end: the next leader end of that partition
        j = next(k for k in msgs if k > i and lines[k]["side"] == "leader" and lines[k]["kind"] == "end" and lines[k]["part"] == lines[i]["part"])
        m[j]["d"] = ""; muts.append(("the leader's handler hides the follower's error", m))
    for name, m in muts:
        f, v, _, _ = wire_checks.validate_wire({"bw": m}, os.path.join(work, "tv-" + str(abs(hash(name)) % 9999)))
        print("%-75s -> rejected sessions: %d" % (name, len(f)))
        ok = ok and len(f) > 0
    import shutil
    shutil.rmtree(work, ignore_errors=True)
    print("BINDING OK" if ok else "BINDING WEAK")
    return 0 if ok else 1


if __name__ == "__main__":
    sys.exit(main())
