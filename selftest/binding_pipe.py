#!/usr/bin/env python3
"""Binding demonstration for spec/TracePipe.tla: the recorded trace of the
repository's TestSingleDB is accepted; with one recorded field corrupted, one
event removed, or a wrong resume point of a reopened table, it is rejected."""
import sys, json, copy, os, shutil
sys.path.insert(0, "/verif/lib")
import common, pipe_checks

work = common.scratch("bindpipe")
evs, rc, tail = pipe_checks.record(".", "TestSingleDB", os.path.join(work, "rec"))
lines, tables, srcs = pipe_checks.to_trace(evs)
print("recorded %d events, %d instances (test exit %d)" % (len(lines), len(tables), rc))


def first(pred, skip=0):
    idx = [i for i, x in enumerate(lines) if pred(x)]
    return idx[min(skip, len(idx) - 1)]


def run(name, ls, tabs=None):
    rep = pipe_checks.validate(ls, tabs or tables, srcs, os.path.join(work, name))
    return len(rep["fails"]) + (1 if rep["invariant"] else 0)


muts = []
m = copy.deepcopy(lines); i = first(lambda x: x["a"] == "rs.apply" and x["key"], 1); m[i]["off"] += 1
muts.append(("offset of an rs.apply altered", m))
m = copy.deepcopy(lines); i = first(lambda x: x["a"] == "rs.apply" and x["key"], 1); m[i]["key"] = False
muts.append(("accepted entry applied as a skip", m))
m = copy.deepcopy(lines); i = first(lambda x: x["a"] == "flush.renamed", 1); del m[i]
muts.append(("flush.renamed removed", m))
m = copy.deepcopy(lines); i = first(lambda x: x["a"] == "flush.begin", 2); m[i]["offs"] = {k: max(0, v - 1) for k, v in m[i]["offs"].items()}
muts.append(("a flush begins with offsets behind the memstore's", m))
m = copy.deepcopy(lines); i = first(lambda x: x["a"] == "off.written", 1); m[i]["offs"] = {k: v + 1 for k, v in m[i]["offs"].items()}
muts.append(("offset file written ahead of the applied offsets", m))
m = copy.deepcopy(lines); i = first(lambda x: x["a"] == "iter.start"); m[i]["file"] = "/elsewhere/filestore_0.dat"
muts.append(("a scan takes a file that is not the installed one", m))
m = copy.deepcopy(lines); tt = m[first(lambda x: x["a"] == "tbl.read")]["t"]; rds = [k for k, x in enumerate(m) if x["a"] == "tbl.read" and x["t"] == tt]
for k in range(rds[2], len(m)):
    if m[k]["t"] == tt and m[k]["a"] in ("tbl.read", "rs.offer", "tbl.verdict", "rs.apply") and m[k]["off"] == lines[rds[2]]["off"]:
        m[k]["off"] = lines[rds[0]]["off"]
muts.append(("an entry is read a second time", m))
m = copy.deepcopy(lines); i = first(lambda x: x["a"] == "flush.done", 99); m.insert(i + 1, dict(m[i], a="old.remove"))
muts.append(("the installed file is removed", m))
m = copy.deepcopy(lines); i = first(lambda x: x["a"] == "flush.done", 99); m.insert(i + 1, dict(m[i], a="old.remove", file=[x for x in lines if x["a"] == "flush.swapped"][0]["file"]))
ok_remove = m
# a second life of test_a that resumes before / after what the first life left durable
t0 = [x for x in lines if x["a"] == "flush.renamed"][-1]
life = t0["t"]; nxt = life.split("#")[0] + "#0xsecond"
for name, delta in (("resumes behind", -1), ("resumes ahead", 1)):
    m = copy.deepcopy(lines)
    m.append(dict(m[0], a="rs.open", t=nxt, prev=life, file=t0["file"], offs={k: max(0, v + delta) for k, v in t0["offs"].items()}))
    muts.append(("a reopened table %s of what the previous instance left durable" % name, (m, tables + [nxt])))
m = copy.deepcopy(lines); m.append(dict(m[0], a="rs.open", t=nxt, prev=life, file=t0["file"], offs=dict(t0["offs"])))
ok_second = run("second", m, tables + [nxt])

base = run("base", lines) + run("okremove", ok_remove)
print("unchanged trace: %d rejected; with a correct second life: %d rejected" % (base, ok_second))
bad = 0
for k, (name, mm) in enumerate(muts):
    ls, tabs = mm if isinstance(mm, tuple) else (mm, None)
    n = run("m%d" % k, ls, tabs)
    print("%-75s %s" % (name, "rejected" if n else "ACCEPTED"))
    bad += 0 if n else 1
shutil.rmtree(work, ignore_errors=True)
print("binding: %d/%d mutations rejected" % (len(muts) - bad, len(muts)))
sys.exit(1 if bad or base or ok_second else 0)
