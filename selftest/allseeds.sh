#!/bin/sh
# usage: selftest/allseeds.sh [seed dir name ...]   regression over the stored
# seeded changes: each is applied in a scratch worktree of /repo's HEAD (never
# in /repo), the quick check of its property is run against that tree from a
# private copy of /verif, and the worktree is removed.
set -u
cd /verif
seeds="$@"
[ -z "$seeds" ] && seeds=$(ls seeded)
for s in $seeds; do
  prop=$(python3 -c "import json;print(json.load(open('/verif/seeded/$s/meta.json'))['property'])")
  wt=$(mktemp -d /tmp/wt-seed.XXXXXX)
  git -C /repo worktree add -q --detach "$wt" HEAD || exit 2
  if git -C "$wt" apply "/verif/seeded/$s/patch.diff" 2>/dev/null; then
    SHOW=0 selftest/against.sh "$wt" "$prop" | sed "s|^$wt|$s|"
  else
    echo "$s: patch does not apply to /repo HEAD"
  fi
  git -C /repo worktree remove --force "$wt"
done
