#!/usr/bin/env python3
"""Binding self-test for spec/TraceFollow.tla: the recorded bookkeeping of real
cluster runs is accepted; with a starting point changed, an entry line dropped,
a follower added to an entry's included set, or a delivery of a never-included
entry it must be rejected."""
import copy, json, os, random, sys
sys.path.insert(0, os.path.join(os.path.dirname(os.path.dirname(os.path.abspath(__file__))), "lib"))
import common, cluster_checks as cc
from storelib import *
from store_checks import random_menu


def main():
    rng = random.Random(11)
    bins = common.build(("zvcluster",))
    work = common.scratch("binding-follow")
    topo = (1, 2, 2)
    tabs = cc.cluster_tables(variant=0)
    menus = [random_menu(rng, 7, ids_from=1, ticks=(1, 9), keys=CLUSTER_KEYS, nonnumeric=False)]
    hs, fols = cc.cluster_sim(topo, tabs, menus, 3, 40, 5, os.path.join(work, "sim"), max_faults=3)
    scs = [cc.scenario_from_cluster_hist("bf%d" % i, topo, tabs, menus, h, fols) for i, h in enumerate(hs)]
    strip = lambda s: {k: v for k, v in s.items() if k not in ("inserted", "settles")}
    for s in scs:
        for c in s["cmds"]:
            c.pop("p", None)
    traces = common.run_shards(bins["zvcluster"], [strip(s) for s in scs], os.path.join(work, "run"), nproc=3)
    fails, nscn, nlines = cc.validate_follow(traces, os.path.join(work, "tv0"))
    print("original: %d traces, %d lines, rejected %d" % (nscn, nlines, len(fails)))
    ok = not fails and nscn > 0
    scn, lines = next((k, v) for k, v in traces.items() if sum(1 for l in v if l.get("e") == "deliver") > 3)
    ev = [i for i, l in enumerate(lines) if l.get("a") == "Ev"]
    joins = [i for i in ev if lines[i]["e"] == "join"]
    entries = [i for i in ev if lines[i]["e"] == "entry"]
    muts = []
    m = copy.deepcopy(lines); i = joins[-1]; m[i]["off"] = lines[entries[0]]["off"] if lines[i]["off"] == [0, 0] else [0, 0]
    muts.append(("starting point computed by the leader changed", m))
    m = copy.deepcopy(lines); del m[entries[len(entries) // 2]]; muts.append(("an entry skipped by the leader's reader", m))
    m = copy.deepcopy(lines); i = next(i for i in entries if lines[i].get("incl")); m[i]["incl"] = []
    muts.append(("a follower that receives an entry it was not included for", m))
    m = copy.deepcopy(lines); i = entries[-1]; m.insert(i + 1, copy.deepcopy(m[i])); m[i + 1]["incl"] = list(m[i].get("incl") or []) or ["f0_0"]
    muts.append(("an entry processed twice in a row", m))
    for name, m in muts:
        f, _, _ = cc.validate_follow({scn: m}, os.path.join(work, "tv-" + str(abs(hash(name)) % 9999)))
        print("%-70s -> rejected: %d" % (name, len(f)))
        ok = ok and len(f) > 0
    import shutil
    shutil.rmtree(work, ignore_errors=True)
    print("BINDING OK" if ok else "BINDING WEAK")
    return 0 if ok else 1


if __name__ == "__main__":
    sys.exit(main())
