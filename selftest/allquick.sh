#!/bin/sh
# usage: selftest/allquick.sh <seed>...   runs every registered quick check once per seed on the
# unchanged tree and reports exit codes and VIOLATION lines (all must be 0 / none).
cd "$(dirname "$0")/.."
ids=$(python3 -c "import json;print(' '.join(c['property_id'] for c in json.load(open('MANIFEST.json'))['checks']))")
for seed in "$@"; do
  for c in $ids; do
    s=$(date +%s)
    VERIF_SEED=$seed ./check $c --tier quick > /tmp/allquick.$c.out 2>&1
    rc=$?
    echo "seed $seed $c: exit $rc, $(grep -c '^VIOLATION' /tmp/allquick.$c.out) violations, $(grep -c '^NOTE' /tmp/allquick.$c.out) notes, $(( $(date +%s) - s )) s"
    [ $rc -ne 0 ] && cp /tmp/allquick.$c.out /tmp/allquick.$c.seed$seed.failed
  done
done
