#!/bin/sh
# Builds the harness from files on disk only and parses every specification.
set -e
cd "$(dirname "$0")"
export GOFLAGS=-mod=mod GOPROXY=off GOSUMDB=off GOTOOLCHAIN=local
mkdir -p .build .scratch evidence
cp /repo/go.sum harness/go.sum
(cd harness && for c in cmd/*; do go build -tags verif -o ../.build/$(basename $c) ./$c; done)
for f in spec/*.tla; do
  case "$f" in *_exh.tla) continue;; esac
  (cd spec && tla-sany "$(basename $f)" > /dev/null) || { echo "SANY failed on $f"; exit 1; }
done
echo setup ok
