module zverif

go 1.12

require (
	github.com/getlantern/bytemap v0.0.0-20210122162547-b07440a617f0
	github.com/getlantern/goexpr v0.0.0-20211215215226-4cdd4fd2847b
	github.com/getlantern/golog v0.0.0-20210606115803-bce9f9fe5a5f
	github.com/getlantern/wal v0.0.0-20220217194315-e4eac848dbd1
	github.com/getlantern/zenodb v0.0.0
	github.com/gorilla/mux v1.7.1
	github.com/gorilla/securecookie v1.1.1
	github.com/spaolacci/murmur3 v1.1.0
)

replace github.com/getlantern/zenodb => /repo
