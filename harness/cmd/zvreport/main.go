// zvreport runs the standalone part of C13 (spec/Report.tla, Scan... and
// Web...): queries of a catalogue under deadlines that are already expired or
// pass while row k is being handled, a scan cut short by the memory cap, and
// the HTTP API with a tiny query time-out or response-size limit; for every run
// it reports what was delivered and what the caller was told.
package main

import (
	"bufio"
	"encoding/json"
	"flag"
	"fmt"
	"io/ioutil"
	"net/http"
	"net/http/httptest"
	"net/url"
	"os"
	"path/filepath"
	"sort"
	"time"

	"github.com/getlantern/golog"
	"github.com/getlantern/zenodb"
	"github.com/getlantern/zenodb/common"
	"github.com/getlantern/zenodb/web"
	"github.com/gorilla/mux"

	"zverif/zv"
)

type WebCase struct {
	TimeoutNs int64 `json:"timeoutNs"`
	MaxBytes  int   `json:"maxBytes"`
}

type Scenario struct {
	Scn        string   `json:"scn"`
	Keys       int      `json:"keys"`    // distinct keys (dimension a)
	Periods    int      `json:"periods"` // points per key, one per period
	Flushed    int      `json:"flushed"` // keys whose data is flushed before the queries
	Queries    []string `json:"queries"`
	DeadlineMs int      `json:"deadlineMs"`
	Ks         []int    `json:"ks"` // rows after which the deadline passes (-1: already expired)
	Stops      []int    `json:"stops"`
	MemCap     bool     `json:"memCap"`
	// Companions: every deadline case is also run sharing its scan with a query
	// that was requested a moment earlier and leaves after one row
	Companions bool      `json:"companions"`
	Web        []WebCase `json:"web"`
	// spec/Web.tla: a behaviour of the HTTP API's cache, replayed with real time
	Life    []LifeStep        `json:"life"`
	LifeSQL map[string]string `json:"lifeSQL"`
	TickMs  int               `json:"tickMs"`
	TTLMs   int               `json:"ttlMs"`
}

type LifeStep struct {
	A       string `json:"a"`
	Q       string `json:"q"`
	NoCache bool   `json:"nocache"`
	Perm    int    `json:"perm"`
}

func emit(out *bufio.Writer, line map[string]interface{}) {
	b, _ := json.Marshal(line)
	out.Write(append(b, '\n'))
}

func canon(rows []zv.RawRow) []string {
	var out []string
	for _, r := range rows {
		b, _ := json.Marshal(map[string]interface{}{"k": r.Key, "p": r.Per, "v": r.Vals})
		out = append(out, string(b))
	}
	sort.Strings(out)
	return out
}

func same(a, b []string) bool {
	if len(a) != len(b) {
		return false
	}
	for i := range a {
		if a[i] != b[i] {
			return false
		}
	}
	return true
}

func run(sc *Scenario, scratch string, out *bufio.Writer) {
	emit(out, map[string]interface{}{"a": "Reset", "scn": sc.Scn})
	dir := filepath.Join(scratch, sc.Scn)
	os.RemoveAll(dir)
	defer os.RemoveAll(dir)
	fail := func(err error) {
		emit(out, map[string]interface{}{"a": "HarnessError", "scn": sc.Scn, "err": err.Error()})
	}
	opts := &zv.Opts{TickMs: 1000, Stream: "s"}
	if sc.Companions {
		opts.CoalesceMs = 20 // requests a few hundred microseconds apart share a scan
	}
	tables := []zv.TableDef{{Name: "t", SQL: "SELECT SUM(w) AS f, SUM(x) AS g FROM s GROUP BY a, b, period(1s)", RetTicks: 1000}}
	n, err := zv.OpenNode(dir, opts, tables)
	if err != nil {
		fail(err)
		return
	}
	defer func() { n.CloseTimeout(3 * time.Second) }()
	total := 0
	insert := func(from, to int) error {
		for k := from; k < to; k++ {
			for p := 1; p <= sc.Periods; p++ {
				ts := zv.Epoch.Add(time.Duration(p) * time.Second)
				if err := n.DB.Insert("s", ts, map[string]interface{}{"a": fmt.Sprintf("k%04d", k), "b": fmt.Sprintf("g%d", k%3)},
					map[string]interface{}{"w": float64(k + p), "x": float64(p)}); err != nil {
					return err
				}
				total++
			}
		}
		return nil
	}
	settle := func(want int) error {
		deadline := time.Now().Add(30 * time.Second)
		for {
			rows, err := n.RawQuery("SELECT _points FROM t GROUP BY period(1000s)", true, 20*time.Second)
			if err != nil {
				return err
			}
			got := 0.0
			for _, r := range rows {
				got += r.Vals["_points"]
			}
			if int(got) >= want {
				return nil
			}
			if time.Now().After(deadline) {
				return fmt.Errorf("ingest did not catch up: %v of %d points", got, want)
			}
			time.Sleep(5 * time.Millisecond)
		}
	}
	if err := insert(0, sc.Flushed); err != nil {
		fail(err)
		return
	}
	if err := settle(total); err != nil {
		fail(err)
		return
	}
	if sc.Flushed > 0 {
		n.DB.FlushAll()
	}
	if err := insert(sc.Flushed, sc.Keys); err != nil {
		fail(err)
		return
	}
	if err := settle(total); err != nil {
		fail(err)
		return
	}
	if sc.MemCap {
		// ingest without the cap, then reopen the directory with a memory cap of a
		// few bytes: a scan gives up after 1000 rows
		n.DB.FlushAll()
		n.CloseTimeout(5 * time.Second)
		capped := &zv.Opts{TickMs: 1000, Stream: "s", MaxMemoryRatio: 1e-12}
		n, err = zv.OpenNode(dir, capped, tables)
		if err != nil {
			fail(err)
			return
		}
		// the virtual clock restarts at zero on every open
		n.DB.VerifAdvanceClock(zv.Epoch.Add(time.Duration(sc.Periods) * time.Second))
	}
	if len(sc.Life) > 0 {
		runLife(sc, n, dir, out, insert, settle, &total)
		return
	}
	for _, sql := range sc.Queries {
		full, _, err := n.RawQueryOpts(sql, true, zv.QueryOpts{StallAtRow: -1})
		if err != nil && !sc.MemCap {
			emit(out, map[string]interface{}{"a": "Run", "sql": sql, "mode": "full", "err": err.Error()})
			continue
		}
		cf := canon(full)
		if sc.MemCap {
			// the uncapped answer comes from counting: keys * periods rows
			line := map[string]interface{}{"a": "Run", "sql": sql, "mode": "memcap", "got": len(full), "expectRows": sc.Keys * sc.Periods}
			if err != nil {
				line["err"] = err.Error()
			}
			emit(out, line)
			continue
		}
		emit(out, map[string]interface{}{"a": "Run", "sql": sql, "mode": "full", "got": len(full)})
		for _, k := range sc.Ks {
			o := zv.QueryOpts{DeadlineMs: sc.DeadlineMs, StallAtRow: k}
			if k < 0 {
				o = zv.QueryOpts{DeadlineMs: -1000, StallAtRow: -1}
			}
			if k > len(full) {
				continue
			}
			rows, _, err := n.RawQueryOpts(sql, true, o)
			line := map[string]interface{}{"a": "Run", "sql": sql, "mode": "deadline", "k": k, "full": len(full), "got": len(rows),
				"complete": same(canon(rows), cf)}
			if err != nil {
				line["err"] = err.Error()
			}
			emit(out, line)
			if sc.Companions && k >= 0 {
				done := make(chan struct{})
				go func() {
					n.RawQueryOpts("SELECT * FROM t", true, zv.QueryOpts{StallAtRow: -1, StopAfter: 1})
					close(done)
				}()
				time.Sleep(300 * time.Microsecond)
				rows, _, err := n.RawQueryOpts(sql, true, o)
				<-done
				line := map[string]interface{}{"a": "Run", "sql": sql, "mode": "deadline", "k": k, "full": len(full), "got": len(rows),
					"complete": same(canon(rows), cf), "companion": true}
				if err != nil {
					line["err"] = err.Error()
				}
				emit(out, line)
			}
		}
		for _, stop := range sc.Stops {
			rows, _, err := n.RawQueryOpts(sql, true, zv.QueryOpts{StallAtRow: -1, StopAfter: stop})
			line := map[string]interface{}{"a": "Run", "sql": sql, "mode": "stop", "k": stop, "full": len(full), "got": len(rows)}
			if err != nil {
				line["err"] = err.Error()
			}
			emit(out, line)
		}
	}
	if len(sc.Web) > 0 {
		n.DB.FlushAll()
	}
	for wi, wc := range sc.Web {
		for _, sql := range sc.Queries {
			full, _, err := n.RawQueryOpts(sql, false, zv.QueryOpts{StallAtRow: -1})
			if err != nil {
				continue
			}
			router := mux.NewRouter()
			o := &web.Opts{CacheDir: filepath.Join(dir, fmt.Sprintf("webcache-%d-%d", wi, time.Now().UnixNano())), QueryTimeout: time.Duration(wc.TimeoutNs), MaxResponseBytes: wc.MaxBytes}
			stop, err := web.Configure(n.DB, router, o)
			if err != nil {
				fail(err)
				return
			}
			ts := httptest.NewServer(router)
			line := map[string]interface{}{"a": "Run", "sql": sql, "mode": "web", "case": wc, "full": len(full)}
			for i, ep := range []string{"immediate", "run"} {
				resp, err := http.Get(ts.URL + "/" + ep + "?" + url.QueryEscape(sql))
				if err != nil {
					line[fmt.Sprintf("err%d", i)] = err.Error()
					continue
				}
				body, _ := ioutil.ReadAll(resp.Body)
				resp.Body.Close()
				line[fmt.Sprintf("status%d", i)] = resp.StatusCode
				if resp.StatusCode == 200 {
					var qr struct {
						Rows  []json.RawMessage
						Stats *common.QueryStats
					}
					if err := json.Unmarshal(body, &qr); err != nil {
						line[fmt.Sprintf("err%d", i)] = "undecodable body"
					} else {
						line[fmt.Sprintf("rows%d", i)] = len(qr.Rows)
						line[fmt.Sprintf("stats%d", i)] = qr.Stats
					}
				} else {
					line[fmt.Sprintf("body%d", i)] = string(body[:minInt(len(body), 160)])
				}
			}
			emit(out, line)
			ts.Close()
			stop()
		}
	}
}

func minInt(a, b int) int {
	if a < b {
		return a
	}
	return b
}

func main() {
	scratch := flag.String("scratch", "", "scratch directory")
	flag.Parse()
	golog.SetOutputs(ioutil.Discard, ioutil.Discard)
	os.MkdirAll(*scratch, 0755)
	tmp := filepath.Join(*scratch, "tmp")
	os.MkdirAll(tmp, 0755)
	os.Setenv("TMPDIR", tmp)
	out := bufio.NewWriterSize(os.Stdout, 1<<20)
	defer out.Flush()
	dec := json.NewDecoder(bufio.NewReaderSize(os.Stdin, 1<<20))
	for dec.More() {
		var sc Scenario
		if err := dec.Decode(&sc); err != nil {
			fmt.Fprintln(os.Stderr, "bad scenario:", err)
			os.Exit(2)
		}
		run(&sc, *scratch, out)
		out.Flush()
	}
	_ = zenodb.ErrOutOfMemory
}

// runLife replays a behaviour of spec/Web.tla on the real handler: requests
// through /immediate (executed at once), cached entries by permalink, ticks as
// real time (the cache TTL is a little more than a whole number of ticks and all
// activity of a tick happens right after its beginning), inserts as new keys
// that are flushed (the HTTP API reads flushed data only).
func runLife(sc *Scenario, n *zv.Node, dir string, out *bufio.Writer, insert func(from, to int) error, settle func(want int) error, total *int) {
	n.DB.FlushAll()
	router := mux.NewRouter()
	stop, err := web.Configure(n.DB, router, &web.Opts{CacheDir: filepath.Join(dir, "lifecache"), CacheTTL: time.Duration(sc.TTLMs) * time.Millisecond})
	if err != nil {
		emit(out, map[string]interface{}{"a": "HarnessError", "scn": sc.Scn, "err": err.Error()})
		return
	}
	defer stop()
	ts := httptest.NewServer(router)
	defer ts.Close()
	perms := map[int]string{}
	keys := sc.Keys
	t0 := time.Now()
	ticks := 0
	get := func(path string, nocache bool) (int, int, string) {
		req, _ := http.NewRequest("GET", ts.URL+path, nil)
		if nocache {
			req.Header.Set("Cache-control", "no-cache")
		}
		resp, err := http.DefaultClient.Do(req)
		if err != nil {
			return 0, -1, err.Error()
		}
		defer resp.Body.Close()
		body, _ := ioutil.ReadAll(resp.Body)
		if resp.StatusCode != 200 {
			return resp.StatusCode, -1, ""
		}
		var qr struct {
			Permalink string
			Rows      []json.RawMessage
		}
		if json.Unmarshal(body, &qr) != nil {
			return 200, -1, ""
		}
		return 200, len(qr.Rows), qr.Permalink
	}
	for i, st := range sc.Life {
		line := map[string]interface{}{"a": "Life", "i": i, "step": st.A, "atMs": time.Since(t0) / time.Millisecond, "tick": ticks}
		switch st.A {
		case "Tick":
			ticks++
			if d := time.Until(t0.Add(time.Duration(ticks*sc.TickMs) * time.Millisecond)); d > 0 {
				time.Sleep(d)
			}
		case "Insert":
			if err := insert(keys, keys+1); err != nil {
				line["err"] = err.Error()
			}
			keys++
			if err := settle(*total); err != nil {
				line["err"] = err.Error()
			}
			n.DB.FlushAll()
		case "Request":
			status, rows, perm := get("/immediate?"+url.QueryEscape(sc.LifeSQL[st.Q]), st.NoCache)
			line["status"], line["rows"], line["permalink"], line["perm"] = status, rows, perm, st.Perm
			if perm != "" {
				if _, ok := perms[st.Perm]; !ok {
					perms[st.Perm] = perm
				}
				line["expectedPermalink"] = perms[st.Perm]
			}
		case "Cached":
			p, ok := perms[st.Perm]
			if !ok {
				line["skipped"] = "permalink of an error entry is not disclosed"
			} else {
				status, rows, _ := get("/cached/"+p, false)
				line["status"], line["rows"], line["perm"] = status, rows, st.Perm
			}
		case "Exec":
			// part of the /immediate request before it
		}
		emit(out, line)
	}
	emit(out, map[string]interface{}{"a": "LifeEnd", "ms": time.Since(t0) / time.Millisecond})
}
