// zvrobust submits the concrete inputs rendered from spec/Robust.tla (C16) to
// the real code: SQL strings to sql.Parse, DB.Query (planner) + Iterate and the
// rpc server's query endpoint; insert payloads to DB.Insert, DB.InsertRaw, the
// HTTP insert handler and the rpc insert stream.  Every call runs under
// recover; a step is announced on stdout before it starts, so that a panic in a
// goroutine of the database (which kills the process) is attributed to its
// input.  Valid points are inserted in between and a probe checks that every
// one of them has been ingested.
package main

import (
	"bufio"
	"bytes"
	"context"
	"encoding/base64"
	"encoding/json"
	"flag"
	"fmt"
	"io/ioutil"
	"math"
	"net"
	"net/http"
	"net/http/httptest"
	"os"
	"path/filepath"
	"runtime/debug"
	"strings"
	"time"

	"github.com/getlantern/bytemap"
	"github.com/getlantern/golog"
	"github.com/getlantern/zenodb"
	"github.com/getlantern/zenodb/core"
	"github.com/getlantern/zenodb/rpc"
	rpcserver "github.com/getlantern/zenodb/rpc/server"
	"github.com/getlantern/zenodb/sql"
	"github.com/getlantern/zenodb/web"
	"github.com/gorilla/mux"

	"zverif/zv"
)

type Step struct {
	Op    string `json:"op"` // sql | payload | valid | probe
	ID    int    `json:"id"`
	SQL   string `json:"sql"`
	Class string `json:"class"`
	Via   string `json:"via"`
	Var   int    `json:"var"`
	Raw   string `json:"raw"` // base64 (raw payloads: dims)
	Raw2  string `json:"raw2"`
}

type Scenario struct {
	Scn   string `json:"scn"`
	Steps []Step `json:"steps"`
}

var out = os.Stdout

func emit(line map[string]interface{}) {
	b, _ := json.Marshal(line)
	out.Write(append(b, '\n'))
}

// guarded runs f and reports a panic instead of propagating it.
func guarded(f func() error) (err error, panicked string) {
	defer func() {
		if p := recover(); p != nil {
			st := string(debug.Stack())
			// keep the frames of the database
			var keep []string
			for _, l := range strings.Split(st, "\n") {
				if strings.Contains(l, "/zenodb") || strings.Contains(l, "getlantern/") {
					keep = append(keep, strings.TrimSpace(l))
				}
			}
			if len(keep) > 6 {
				keep = keep[:6]
			}
			panicked = fmt.Sprintf("%v @ %s", p, strings.Join(keep, " | "))
		}
	}()
	return f(), ""
}

type env struct {
	db     *zenodb.DB
	leader *zenodb.DB // a cluster leader with the same tables: only its planner is exercised
	node   *zv.Node
	ts     *httptest.Server
	client rpc.Client
	valid  int
	now    time.Time
}

func setup(dir string) (*env, error) {
	opts := &zv.Opts{TickMs: 1000, Stream: "s", RealTime: true}
	tables := []zv.TableDef{{Name: "t", RetTicks: 100000,
		SQL: "SELECT SUM(w) AS f, SUM(x) AS g, PERCENTILE(w, 99, 0, 100, 2) AS pc FROM s GROUP BY a, b, period(1s)"},
		{Name: "u", RetTicks: 100000, SQL: "SELECT SUM(w) AS f FROM s GROUP BY a, period(2s)"}}
	n, err := zv.OpenNode(dir, opts, tables)
	if err != nil {
		return nil, err
	}
	e := &env{db: n.DB, node: n, now: time.Now()}
	e.leader, err = zenodb.NewDB(&zenodb.DBOpts{Dir: filepath.Join(dir, "leader"), Passthrough: true, ID: 1, NumPartitions: 2,
		ClusterQueryTimeout: time.Second, Panic: func(interface{}) {}})
	if err != nil {
		return nil, err
	}
	if err := e.leader.ApplySchema(zv.SchemaOf(tables, opts.Tick())); err != nil {
		return nil, err
	}
	router := mux.NewRouter()
	if _, err := web.Configure(n.DB, router, &web.Opts{CacheDir: filepath.Join(dir, "webcache")}); err != nil {
		return nil, err
	}
	e.ts = httptest.NewServer(router)
	l, err := net.Listen("tcp", "127.0.0.1:0")
	if err != nil {
		return nil, err
	}
	serve, _ := rpcserver.PrepareServer(n.DB, l, &rpcserver.Opts{ID: 1})
	go serve()
	e.client, err = rpc.Dial(l.Addr().String(), &rpc.ClientOpts{})
	return e, err
}

func (e *env) doSQL(st *Step) {
	line := map[string]interface{}{"a": "Result", "id": st.ID, "op": "sql"}
	err, p := guarded(func() error { _, err := sql.Parse(st.SQL); return err })
	if p != "" {
		line["panic"], line["where"] = p, "sql.Parse"
		emit(line)
		return
	}
	line["parse"] = err == nil
	var src core.FlatRowSource
	err, p = guarded(func() error {
		var err error
		src, err = e.db.Query(st.SQL, false, nil, true)
		return err
	})
	if p != "" {
		line["panic"], line["where"] = p, "DB.Query (planner)"
		emit(line)
		return
	}
	line["plan"] = err == nil
	// the same text planned by a cluster leader (the distributed planner rewrites the text of
	// queries it cannot push down); the plan is not executed, there are no followers
	lerr, lp := guarded(func() error {
		_, err := e.leader.Query(st.SQL, false, nil, true)
		return err
	})
	if lp != "" {
		line["panic"], line["where"] = lp, "DB.Query on a cluster leader (distributed planner)"
		emit(line)
		return
	}
	line["leaderPlan"] = lerr == nil
	if err == nil && src != nil {
		rows := 0
		err, p = guarded(func() error {
			ctx, cancel := context.WithTimeout(context.Background(), 3*time.Second)
			defer cancel()
			_, err := src.Iterate(ctx, func(core.Fields) error { return nil }, func(*core.FlatRow) (bool, error) { rows++; return rows < 10000, nil })
			return err
		})
		if p != "" {
			line["panic"], line["where"] = p, "Iterate"
			emit(line)
			return
		}
		line["rows"] = rows
		if err != nil {
			line["iterErr"] = short(err.Error())
		}
	}
	// the same string through the rpc server (a panic in its handler ends the process)
	err, p = guarded(func() error {
		ctx, cancel := context.WithTimeout(context.Background(), 5*time.Second)
		defer cancel()
		_, iterate, err := e.client.Query(ctx, st.SQL, true)
		if err != nil {
			return err
		}
		n := 0
		_, err = iterate(func(*core.FlatRow) (bool, error) { n++; return n < 10000, nil })
		return err
	})
	if p != "" {
		line["panic"], line["where"] = p, "rpc client"
	}
	line["rpc"] = err == nil
	emit(line)
}

func short(s string) string {
	if len(s) > 120 {
		return s[:120]
	}
	return s
}

// payload builds the dimension and value maps of a payload class.
func payload(class string, v int) (dims, vals map[string]interface{}, ts time.Time, stream string) {
	ts = time.Now().Add(-5 * time.Second)
	stream = "s"
	dims = map[string]interface{}{"a": fmt.Sprintf("odd%d", v), "b": "x"}
	vals = map[string]interface{}{"w": 1.0, "x": 2.0}
	switch class {
	case "empty_vals":
		vals = map[string]interface{}{}
	case "empty_dims":
		dims = map[string]interface{}{}
	case "nil_maps":
		if v%2 == 0 {
			dims = nil
		} else {
			vals = nil
		}
	case "nil_dim":
		dims["b"] = nil
	case "nested_dim":
		dims["b"] = map[string]interface{}{"deep": []interface{}{1, "two", nil}}
	case "bool_val":
		vals["w"] = v%2 == 0
	case "string_val":
		vals = map[string]interface{}{"w": "seven", "x": ""}
	case "nil_val":
		vals["w"] = nil
	case "empty_array":
		if v%2 == 0 {
			vals["w"] = []float64{}
		} else {
			vals["w"] = []int{}
		}
	case "mixed_array":
		vals["w"] = []interface{}{1, "two", 3.0, nil, true}
	case "string_array":
		vals["w"] = []string{"a", "b"}
	case "nan":
		vals["w"] = math.NaN()
	case "inf":
		vals["w"] = math.Inf(1 - 2*(v%2))
	case "huge_array":
		arr := make([]float64, 5000)
		for i := range arr {
			arr[i] = 1
		}
		vals["w"] = arr
	case "nested_val":
		vals["w"] = map[string]interface{}{"v": 1}
	case "time_val":
		vals["w"] = ts
	case "bytes_dim":
		dims["b"] = []byte{0, 1, 2, 255}
	case "empty_key":
		dims[""] = "x"
		vals[""] = 1.0
	case "long_key":
		dims[strings.Repeat("k", 70000)] = "x"
	case "many_dims":
		for i := 0; i < 300; i++ {
			dims[fmt.Sprintf("d%03d", i)] = i
		}
	case "zero_ts":
		ts = time.Time{}
	case "old_ts":
		ts = time.Now().Add(-24 * 365 * 10 * time.Hour)
	case "ancient_ts":
		ts = time.Unix(-1<<40, 0)
	case "future_ts":
		ts = time.Now().Add(time.Duration(75+v) * time.Second) // ahead of the clock
	case "far_future":
		ts = time.Now().Add(24 * 365 * 10 * time.Hour)
	case "unknown_stream":
		stream = "nosuchstream"
	case "upper_stream":
		stream = "  S "
	}
	return
}

func (e *env) doPayload(st *Step) {
	line := map[string]interface{}{"a": "Result", "id": st.ID, "op": "payload", "class": st.Class, "via": st.Via}
	dims, vals, ts, stream := payload(st.Class, st.Var)
	var err error
	var p string
	switch st.Via {
	case "embedded":
		err, p = guarded(func() error { return e.db.Insert(stream, ts, dims, vals) })
	case "raw":
		d, _ := base64.StdEncoding.DecodeString(st.Raw)
		v, _ := base64.StdEncoding.DecodeString(st.Raw2)
		err, p = guarded(func() error { return e.db.InsertRaw("s", ts, bytemap.ByteMap(d), bytemap.ByteMap(v)) })
	case "http":
		err, p = guarded(func() error {
			pt := map[string]interface{}{"dims": jsonable(dims), "vals": jsonable(vals)}
			if !ts.IsZero() && ts.Year() > 0 && ts.Year() < 9999 {
				pt["ts"] = ts
			}
			body, jerr := json.Marshal(pt)
			if jerr != nil {
				body = []byte(`{"dims": {"a": "odd"}, "vals": {"w": NaN}}`)
			}
			if st.Var%3 == 2 {
				body = body[:len(body)/2] // a truncated document
			}
			resp, err := http.Post(e.ts.URL+"/insert/"+strings.TrimSpace(stream), "application/json", bytes.NewReader(body))
			if err != nil {
				return err
			}
			defer resp.Body.Close()
			b, _ := ioutil.ReadAll(resp.Body)
			line["status"] = resp.StatusCode
			if resp.StatusCode >= 400 {
				return fmt.Errorf("%s", short(string(b)))
			}
			return nil
		})
	case "rpc":
		err, p = guarded(func() error {
			ctx, cancel := context.WithTimeout(context.Background(), 5*time.Second)
			defer cancel()
			ins, err := e.client.NewInserter(ctx, stream)
			if err != nil {
				return err
			}
			if err := ins.Insert(ts, dims, func(cb func(string, interface{})) {
				for k, v := range vals {
					cb(k, v)
				}
			}); err != nil {
				return err
			}
			rep, err := ins.Close()
			if err != nil {
				return err
			}
			if len(rep.Errors) > 0 {
				return fmt.Errorf("%v", rep.Errors)
			}
			return nil
		})
	}
	if p != "" {
		line["panic"], line["where"] = p, "insert via "+st.Via
	}
	if err != nil {
		line["err"] = short(err.Error())
	}
	emit(line)
}

func jsonable(m map[string]interface{}) map[string]interface{} {
	out := map[string]interface{}{}
	for k, v := range m {
		switch x := v.(type) {
		case float64:
			if math.IsNaN(x) || math.IsInf(x, 0) {
				out[k] = fmt.Sprint(x)
				continue
			}
		case []byte:
			out[k] = string(x)
			continue
		}
		out[k] = v
	}
	return out
}

func (e *env) doValid(st *Step) {
	e.valid++
	// alternate the entry point for valid traffic as well
	dims := map[string]interface{}{"a": "valid", "b": fmt.Sprintf("v%d", e.valid%3)}
	vals := map[string]interface{}{"w": 1.0, "x": 1.0}
	ts := time.Now().Add(-2 * time.Second)
	err := e.db.Insert("s", ts, dims, vals)
	line := map[string]interface{}{"a": "Result", "id": st.ID, "op": "valid"}
	if err != nil {
		line["err"] = err.Error()
	}
	emit(line)
}

func (e *env) doProbe(st *Step) {
	line := map[string]interface{}{"a": "Result", "id": st.ID, "op": "probe", "expected": e.valid}
	deadline := time.Now().Add(15 * time.Second)
	got := -1.0
	var lastErr string
	for {
		rows, err := e.node.RawQuery("SELECT _points FROM t WHERE a = 'valid' GROUP BY period(100000s)", true, 10*time.Second)
		if err != nil {
			lastErr = err.Error()
		} else {
			got = 0
			for _, r := range rows {
				got += r.Vals["_points"]
			}
		}
		if int(got) == e.valid || time.Now().After(deadline) {
			break
		}
		time.Sleep(10 * time.Millisecond)
	}
	line["got"] = got
	if lastErr != "" {
		line["err"] = lastErr
	}
	emit(line)
}

func run(sc *Scenario, scratch string) {
	emit(map[string]interface{}{"a": "Reset", "scn": sc.Scn})
	dir := filepath.Join(scratch, sc.Scn)
	os.RemoveAll(dir)
	e, err := setup(dir)
	if err != nil {
		emit(map[string]interface{}{"a": "HarnessError", "scn": sc.Scn, "err": err.Error()})
		return
	}
	for i := range sc.Steps {
		st := &sc.Steps[i]
		emit(map[string]interface{}{"a": "Begin", "id": st.ID, "op": st.Op})
		// an input that makes a parser or the planner loop must not hold up the rest
		done := make(chan struct{})
		go func(id int) {
			select {
			case <-done:
			case <-time.After(45 * time.Second):
				emit(map[string]interface{}{"a": "Result", "id": id, "op": "hang", "hang": true})
				fmt.Fprintln(os.Stderr, "fatal error: step did not return within 45s")
				os.Exit(2)
			}
		}(st.ID)
		defer func() {}()
		switch st.Op {
		case "sql":
			e.doSQL(st)
		case "payload":
			e.doPayload(st)
		case "valid":
			e.doValid(st)
		case "probe":
			e.doProbe(st)
		}
		close(done)
	}
	e.ts.Close()
	e.client.Close()
	e.node.CloseTimeout(3 * time.Second)
	os.RemoveAll(dir)
	emit(map[string]interface{}{"a": "End", "scn": sc.Scn})
}

func main() {
	scratch := flag.String("scratch", "", "scratch directory")
	flag.Parse()
	golog.SetOutputs(ioutil.Discard, ioutil.Discard)
	os.MkdirAll(*scratch, 0755)
	tmp := filepath.Join(*scratch, "tmp")
	os.MkdirAll(tmp, 0755)
	os.Setenv("TMPDIR", tmp)
	dec := json.NewDecoder(bufio.NewReaderSize(os.Stdin, 1<<20))
	for dec.More() {
		var sc Scenario
		if err := dec.Decode(&sc); err != nil {
			fmt.Fprintln(os.Stderr, "bad scenario:", err)
			os.Exit(2)
		}
		run(&sc, *scratch)
	}
}
