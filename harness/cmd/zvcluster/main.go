// zvcluster runs fault-sequence scenarios against an in-process zenodb
// cluster (leaders in passthrough mode, followers per partition, wired through
// DBOpts.Follow / RegisterRemoteQueryHandler with links owned by the harness)
// next to a standalone database fed the same points, and reports what every
// node holds and what cluster and standalone queries return.
package main

import (
	"bufio"
	"context"
	"encoding/json"
	"flag"
	"fmt"
	"io/ioutil"
	"net/http"
	"net/http/httptest"
	"net/url"
	"os"
	"path/filepath"
	"sort"
	"sync"
	"time"

	"github.com/getlantern/bytemap"
	"github.com/getlantern/golog"
	"github.com/getlantern/wal"
	"github.com/getlantern/zenodb"
	"github.com/getlantern/zenodb/common"
	"github.com/getlantern/zenodb/core"
	"github.com/getlantern/zenodb/planner"
	"github.com/getlantern/zenodb/web"
	"github.com/gorilla/mux"

	"zverif/zv"
)

type Topo struct {
	Leaders    int `json:"leaders"`
	Partitions int `json:"partitions"`
	Replicas   int `json:"replicas"`
	// ClusterQueryTimeout of the leaders (default 2000)
	QueryTimeoutMs int `json:"queryTimeoutMs"`
}

type Cmd struct {
	A      string                     `json:"a"`
	L      int                        `json:"l"`
	F      string                     `json:"f"`
	T      string                     `json:"t"`
	P      json.RawMessage            `json:"p"`
	TS     int                        `json:"ts"`
	Dims   map[string]json.RawMessage `json:"dims"`
	Vals   map[string]json.RawMessage `json:"vals"`
	SQL    string                     `json:"sql"`
	Mem    bool                       `json:"mem"`
	Fault  string                     `json:"fault"` // remote query handler behaviour
	After  int                        `json:"after"`
	TimeMs int                        `json:"timeMs"`
	ID     string                     `json:"id"`
	// C13: the context of a query
	DeadlineMs int  `json:"deadlineMs"`
	StallAtRow *int `json:"stallAtRow"`
	NoDeadline bool `json:"noDeadline"`
	Web        bool `json:"web"` // also ask through the HTTP API of the leader
}

type Scenario struct {
	Scn    string        `json:"scn"`
	Opts   zv.Opts       `json:"opts"`
	Tables []zv.TableDef `json:"tables"`
	Topo   Topo          `json:"topo"`
	Cmds   []Cmd         `json:"cmds"`
}

const stepTimeout = 8 * time.Second

type fnode struct {
	name      string
	part, rid int
	dir       string
	db        *zenodb.DB
	mx        sync.Mutex
	makeF     func(sources []int) map[int]*common.Follow
	insert    func(data []byte, off wal.Offset, source int) error
	follows   map[int]*common.Follow
	ready     chan struct{}
	stopQ     chan struct{}
	snapDir   string
	queryFn   planner.QueryClusterFN
	panics    []string
}

type link struct {
	// flight is held (shared) by a delivery from the moment it has been admitted
	// until its effects are recorded; connect and cut take it exclusively after
	// closing the old generation, so that no delivery of the old connection is
	// still under way when the follower's next message is built (a real follower
	// uses one stream at a time)
	flight    sync.RWMutex
	mx        sync.Mutex
	gen       int
	up        bool
	delivered int
}

type runner struct {
	ctl     *zv.Ctl
	scratch string
	sc      *Scenario
	out     *bufio.Writer
	omx     sync.Mutex
	leaders map[int]*zenodb.DB
	ldirs   map[int]string
	fol     map[string]*fnode
	links   map[string]*link // "l/f"
	solo    *zv.Node
	// leader bookkeeping from hooks (under ctl lock)
	sigs     map[int]map[string][]int // leader -> entry content -> indices
	entries  map[int]int              // entries inserted per leader
	lastSeen map[int]int              // highest entry index seen by ldr.entry since the last join
	included map[string]int           // "l/f" -> times included since last connect
	faults   map[string]Cmd           // follower -> query handler fault
	joined   map[string]int           // "l/f" -> join events seen
	markers  int
	now      time.Time
	outst    map[string]int // "l/f" -> query handlers of follower f registered with leader l and not yet taken
	hrows    map[string]int // follower -> rows its handler passed on during the current query
	hcalls   map[string]int // follower -> handler invocations during the current query
}

func (r *runner) emit(line map[string]interface{}) {
	b, _ := json.Marshal(line)
	r.omx.Lock()
	r.out.Write(append(b, '\n'))
	r.omx.Unlock()
}

// emitLocked is emit for callers that hold the controller's lock (hook callbacks).
func (r *runner) emitLocked(line map[string]interface{}) { r.emit(line) }

func lname(l int) string { return fmt.Sprintf("@leader.%d", l) }

func (r *runner) dbopts(dir string) *zenodb.DBOpts {
	return &zenodb.DBOpts{
		Dir:                       dir,
		VirtualTime:               true,
		IterationCoalesceInterval: time.Millisecond,
		IterationConcurrency:      8,
		ClusterQueryConcurrency:   100,
		ClusterQueryTimeout:       r.queryTimeout(),
		NumPartitions:             r.sc.Topo.Partitions,
		Panic:                     func(e interface{}) {},
	}
}

func (r *runner) queryTimeout() time.Duration {
	if r.sc.Topo.QueryTimeoutMs > 0 {
		return time.Duration(r.sc.Topo.QueryTimeoutMs) * time.Millisecond
	}
	return 2 * time.Second
}

func (r *runner) schema() zenodb.Schema {
	s := zenodb.Schema{}
	tick := r.sc.Opts.Tick()
	for _, t := range r.sc.Tables {
		s[t.Name] = &zenodb.TableOpts{View: t.View, RetentionPeriod: time.Duration(t.RetTicks) * tick, SQL: t.SQL,
			PartitionBy: append([]string(nil), t.Partition...), MinFlushLatency: 24 * time.Hour}
	}
	return s
}

func (r *runner) openLeader(l int) error {
	o := r.dbopts(r.ldirs[l])
	o.Passthrough = true
	o.ID = l
	db, err := zenodb.NewDB(o)
	if err != nil {
		return err
	}
	if err := db.ApplySchema(r.schema()); err != nil {
		return err
	}
	r.leaders[l] = db
	return nil
}

func (r *runner) openFollower(f *fnode) error {
	o := r.dbopts(f.dir)
	o.ID = f.rid
	o.Partition = f.part
	f.ready = make(chan struct{})
	f.stopQ = make(chan struct{})
	f.follows = nil
	var once sync.Once
	o.Follow = func(mk func(sources []int) map[int]*common.Follow, cb func(data []byte, newOffset wal.Offset, source int) error) {
		f.mx.Lock()
		f.makeF, f.insert = mk, cb
		f.follows = nil
		f.mx.Unlock()
		once.Do(func() { close(f.ready) })
	}
	o.RegisterRemoteQueryHandler = func(db *zenodb.DB, partition int, query planner.QueryClusterFN) {
		f.mx.Lock()
		f.queryFn = query
		f.mx.Unlock()
	}
	db, err := zenodb.NewDB(o)
	if err != nil {
		return err
	}
	if err := db.ApplySchema(r.schema()); err != nil {
		return err
	}
	f.db = db
	select {
	case <-f.ready:
	case <-time.After(stepTimeout):
		return fmt.Errorf("follower %s did not start following", f.name)
	}
	// serve remote queries: handlers are single use, keep one registered per leader
	for l := range r.leaders {
		go r.serveQueries(f, l, f.stopQ)
	}
	return nil
}

// serveQueries keeps a (possibly faulty) query handler of follower f registered
// with leader l.
func (r *runner) serveQueries(f *fnode, l int, stop chan struct{}) {
	for {
		used := make(chan struct{})
		var once sync.Once
		handler := func(ctx context.Context, sqlString string, isSubQuery bool, subQueryResults [][]interface{}, unflat bool, onFields core.OnFields, onRow core.OnRow, onFlatRow core.OnFlatRow) (interface{}, error) {
			defer once.Do(func() { close(used) })
			r.ctl.Locked(func() { r.outst[fmt.Sprintf("%d/%s", l, f.name)]-- })
			f.mx.Lock()
			q := f.queryFn
			f.mx.Unlock()
			var fault Cmd
			var has bool
			r.ctl.Locked(func() {
				fault, has = r.faults[f.name]
				if has && fault.Fault == "retry" {
					// fails once, before the first row, with a retriable error
					r.faults[f.name] = Cmd{Fault: "ok"}
				}
				if r.hcalls != nil {
					r.hcalls[f.name]++
				}
			})
			count := func() {
				r.ctl.Locked(func() {
					if r.hrows != nil {
						r.hrows[f.name]++
					}
				})
			}
			if onRow != nil {
				orig := onRow
				onRow = func(key bytemap.ByteMap, vals core.Vals) (bool, error) { count(); return orig(key, vals) }
			}
			if onFlatRow != nil {
				orig := onFlatRow
				onFlatRow = func(fr *core.FlatRow) (bool, error) { count(); return orig(fr) }
			}
			if !has || fault.Fault == "" || fault.Fault == "ok" {
				return q(ctx, sqlString, isSubQuery, subQueryResults, unflat, onFields, onRow, onFlatRow)
			}
			n := 0
			switch fault.Fault {
			case "retry":
				return nil, common.MarkRetriable(fmt.Errorf("injected retriable failure"))
			case "error":
				row := func(key bytemap.ByteMap, vals core.Vals) (bool, error) {
					if n >= fault.After {
						return false, fmt.Errorf("injected failure after %d rows", n)
					}
					n++
					return onRow(key, vals)
				}
				flat := func(fr *core.FlatRow) (bool, error) {
					if n >= fault.After {
						return false, fmt.Errorf("injected failure after %d rows", n)
					}
					n++
					return onFlatRow(fr)
				}
				if fault.After == 0 {
					return nil, fmt.Errorf("injected failure before any row")
				}
				return q(ctx, sqlString, isSubQuery, subQueryResults, unflat, onFields, row, flat)
			case "stall":
				row := func(key bytemap.ByteMap, vals core.Vals) (bool, error) {
					if n >= fault.After {
						time.Sleep(time.Duration(fault.TimeMs) * time.Millisecond)
					}
					n++
					return onRow(key, vals)
				}
				flat := func(fr *core.FlatRow) (bool, error) {
					if n >= fault.After {
						time.Sleep(time.Duration(fault.TimeMs) * time.Millisecond)
					}
					n++
					return onFlatRow(fr)
				}
				if fault.After == 0 {
					time.Sleep(time.Duration(fault.TimeMs) * time.Millisecond)
				}
				return q(ctx, sqlString, isSubQuery, subQueryResults, unflat, onFields, row, flat)
			}
			return q(ctx, sqlString, isSubQuery, subQueryResults, unflat, onFields, onRow, onFlatRow)
		}
		var absent bool
		r.ctl.Locked(func() { absent = r.faults[f.name].Fault == "absent" })
		if absent {
			select {
			case <-stop:
				return
			case <-time.After(20 * time.Millisecond):
				continue
			}
		}
		ldb := r.leaders[l]
		if ldb == nil {
			return
		}
		ldb.RegisterQueryHandler(f.part, handler)
		r.ctl.Locked(func() { r.outst[fmt.Sprintf("%d/%s", l, f.name)]++ })
		select {
		case <-stop:
			return
		case <-used:
		}
	}
}

func (r *runner) connect(f *fnode, l int) error {
	key := fmt.Sprintf("%d/%s", l, f.name)
	lk := r.links[key]
	if lk == nil {
		lk = &link{}
		r.links[key] = lk
	}
	f.mx.Lock()
	if f.follows == nil {
		var sources []int
		for s := range r.leaders {
			sources = append(sources, s)
		}
		sort.Ints(sources)
		f.follows = f.makeF(sources)
	}
	fo := f.follows[l]
	insert := f.insert
	f.mx.Unlock()
	if fo == nil {
		return fmt.Errorf("follower %s has no follow spec for leader %d", f.name, l)
	}
	lk.mx.Lock()
	lk.gen++
	gen := lk.gen
	lk.up = true
	lk.mx.Unlock()
	lk.flight.Lock() // deliveries of the previous connection have ended
	lk.flight.Unlock()
	var joinedBefore int
	r.ctl.Locked(func() { joinedBefore = r.joined[key] })
	ldb := r.leaders[l]
	// like server.followSource: the Follow message is reused across reconnects, its
	// EarliestOffset is the offset of the last entry delivered
	msg := *fo
	{
		// what the follower tells the leader: per table the offset of the last entry of
		// this leader it has offered to the table, and the last offset delivered on the link
		tabs := map[string][2]int64{}
		for _, part := range msg.Partitions {
			for _, pt := range part.Tables {
				tabs[pt.Name] = zenodb.VerifOffset(pt.Offsets[l])
			}
		}
		r.emit(map[string]interface{}{"a": "Ev", "e": "connect", "l": l, "f": f.name, "tabs": tabs, "earliest": zenodb.VerifOffset(msg.EarliestOffset)})
	}
	go ldb.Follow(&msg, func(data []byte, off wal.Offset) error {
		lk.flight.RLock()
		defer lk.flight.RUnlock()
		lk.mx.Lock()
		ok := lk.up && lk.gen == gen
		lk.mx.Unlock()
		if !ok {
			r.emit(map[string]interface{}{"a": "Ev", "e": "reject", "l": l, "f": f.name, "off": zenodb.VerifOffset(off), "gen": gen})
			return fmt.Errorf("link down")
		}
		err := insert(append([]byte(nil), data...), off, l)
		if err != nil {
			return err
		}
		f.mx.Lock()
		fo.EarliestOffset = off
		f.mx.Unlock()
		r.ctl.Locked(func() {
			lk.delivered++
			r.emitLocked(map[string]interface{}{"a": "Ev", "e": "deliver", "l": l, "f": f.name, "off": zenodb.VerifOffset(off), "gen": gen})
		})
		return nil
	})
	// the leader has taken the follower in when its bookkeeping reports the join
	// (from then on only the restarted reader's entries are processed)
	return r.ctl.WaitCond(stepTimeout, "leader to take the follower in", func() bool { return r.joined[key] > joinedBefore })
}

func (r *runner) cut(f *fnode, l int) {
	if lk := r.links[fmt.Sprintf("%d/%s", l, f.name)]; lk != nil {
		lk.mx.Lock()
		lk.up = false
		lk.gen++
		lk.mx.Unlock()
		lk.flight.Lock()
		lk.flight.Unlock()
	}
}

func (r *runner) closeDB(db *zenodb.DB) {
	done := make(chan struct{})
	go func() { db.Close(); close(done) }()
	select {
	case <-done:
	case <-time.After(3 * time.Second):
	}
}

func (r *runner) tablesOf(f *fnode) []string {
	var out []string
	for _, t := range r.sc.Tables {
		out = append(out, fmt.Sprintf("%s@follower.%d.%d", t.Name, f.part, f.rid))
	}
	return out
}

// settle: a marker entry (a point without numeric values: accepted, stored
// nowhere) is inserted on every leader; when a leader's bookkeeping has seen it,
// everything before it has been handed to the followers' queues; then the links
// must have delivered what was included, and the followers' pipelines be idle.
func (r *runner) settle() error {
	tick := r.sc.Opts.Tick()
	for l, ldb := range r.leaders {
		r.markers++
		dims := map[string]interface{}{"a": 0.0, "b": "x"}
		vals := map[string]interface{}{"w": fmt.Sprintf("marker%d", r.markers)}
		ts := zv.Epoch.Add(tick)
		var idx int
		r.ctl.Locked(func() {
			r.entries[l]++
			idx = r.entries[l]
			sig := string(zv.EntryBytes(ts, dims, vals))
			r.sigs[l][sig] = append(r.sigs[l][sig], idx)
		})
		if err := ldb.Insert(r.sc.Opts.Stream, ts, dims, vals); err != nil {
			return err
		}
		r.solo.DB.Insert(r.sc.Opts.Stream, ts, dims, vals)
	}
	return r.ctl.WaitCond(3*stepTimeout, "cluster quiescence", func() bool {
		for l := range r.leaders {
			// a leader reads its WAL for its followers only: without a live link
			// there is nothing to wait for
			live := false
			for key, lk := range r.links {
				var kl int
				fmt.Sscanf(key, "%d/", &kl)
				lk.mx.Lock()
				if kl == l && lk.up {
					live = true
				}
				lk.mx.Unlock()
			}
			if live && r.lastSeen[l] < r.entries[l] {
				return false
			}
		}
		for key, lk := range r.links {
			lk.mx.Lock()
			up := lk.up
			lk.mx.Unlock()
			if up && lk.delivered < r.included[key] {
				return false
			}
		}
		for _, f := range r.fol {
			for _, tn := range r.tablesOf(f) {
				// everything handed to the table's pipeline has been announced, decided and applied
				if r.ctl.Reads[tn] < r.ctl.FolOffers[tn] || r.ctl.Verdicts[tn] < r.ctl.Reads[tn] || r.ctl.Applies[tn] < r.ctl.Offers[tn] {
					return false
				}
			}
		}
		for _, t := range r.sc.Tables {
			if r.ctl.Verdicts[t.Name] < r.entriesTotal() || r.ctl.Applies[t.Name] < r.ctl.Offers[t.Name] {
				return false
			}
		}
		return true
	})
}

func (r *runner) syncClocks() {
	if r.now.IsZero() {
		return
	}
	for _, ldb := range r.leaders {
		if ldb != nil {
			ldb.VerifAdvanceClock(r.now)
		}
	}
	for _, f := range r.fol {
		if f.db != nil {
			f.db.VerifAdvanceClock(r.now)
		}
	}
	if r.solo != nil && r.solo.DB != nil {
		r.solo.DB.VerifAdvanceClock(r.now)
	}
}

func (r *runner) entriesTotal() int {
	n := 0
	for _, e := range r.entries {
		n += e
	}
	return n
}

func (r *runner) probe(label string) {
	for _, name := range r.folNames() {
		f := r.fol[name]
		if f.db == nil {
			continue
		}
		n := &zv.Node{DB: f.db, Opts: &r.sc.Opts}
		for _, t := range r.sc.Tables {
			rows, _, err := n.Probe("SELECT * FROM "+t.Name, true, stepTimeout)
			line := map[string]interface{}{"a": "View", "at": label, "node": f.name, "part": f.part, "t": t.Name, "rows": rows}
			if rows == nil {
				line["rows"] = []zv.Row{}
			}
			if err != nil {
				line["err"] = err.Error()
			}
			r.emit(line)
		}
	}
	for _, t := range r.sc.Tables {
		rows, _, err := r.solo.Probe("SELECT * FROM "+t.Name, true, stepTimeout)
		line := map[string]interface{}{"a": "View", "at": label, "node": "standalone", "part": -1, "t": t.Name, "rows": rows}
		if rows == nil {
			line["rows"] = []zv.Row{}
		}
		if err != nil {
			line["err"] = err.Error()
		}
		r.emit(line)
	}
}

func (r *runner) folNames() []string {
	var names []string
	for n := range r.fol {
		names = append(names, n)
	}
	sort.Strings(names)
	return names
}

// clusterQuery runs sql through leader l (cluster plan) and reports rows, stats, error.
func (r *runner) clusterQuery(l int, sql string, mem bool, timeout time.Duration) map[string]interface{} {
	n := &zv.Node{DB: r.leaders[l], Opts: &r.sc.Opts}
	rows, stats, err := n.RawQueryStats(sql, mem, timeout)
	line := map[string]interface{}{"raw": rows, "stats": stats}
	if rows == nil {
		line["raw"] = []zv.RawRow{}
	}
	if err != nil {
		line["err"] = err.Error()
	}
	return line
}

// webQuery asks the HTTP API in front of leader l (flushed data only, like the
// real web handler) and reports status, number of rows and statistics.
func (r *runner) webQuery(l int, sql string) map[string]interface{} {
	out := map[string]interface{}{}
	router := mux.NewRouter()
	stop, err := web.Configure(r.leaders[l], router, &web.Opts{CacheDir: filepath.Join(r.scratch, fmt.Sprintf("webcache-%d", time.Now().UnixNano())),
		QueryTimeout: 20 * time.Second})
	if err != nil {
		out["err"] = err.Error()
		return out
	}
	ts := httptest.NewServer(router)
	defer ts.Close()
	defer stop()
	resp, err := http.Get(ts.URL + "/immediate?" + url.QueryEscape(sql))
	if err != nil {
		out["err"] = err.Error()
		return out
	}
	defer resp.Body.Close()
	out["status"] = resp.StatusCode
	body, _ := ioutil.ReadAll(resp.Body)
	if resp.StatusCode == 200 {
		var qr struct {
			Rows  []json.RawMessage
			Stats *common.QueryStats
		}
		if err := json.Unmarshal(body, &qr); err != nil {
			out["err"] = "undecodable body: " + err.Error()
		} else {
			out["rows"], out["stats"] = len(qr.Rows), qr.Stats
		}
	} else {
		out["body"] = string(body)
	}
	return out
}

func (r *runner) exec(c *Cmd) error {
	tick := r.sc.Opts.Tick()
	switch c.A {
	case "Insert":
		dims, err := zv.ValueMap(c.Dims, tick)
		if err != nil {
			return err
		}
		vals, err := zv.ValueMap(c.Vals, tick)
		if err != nil {
			return err
		}
		ts := zv.Epoch.Add(time.Duration(c.TS) * tick)
		r.ctl.Locked(func() {
			r.entries[c.L]++
			sig := string(zv.EntryBytes(ts, dims, vals))
			r.sigs[c.L][sig] = append(r.sigs[c.L][sig], r.entries[c.L])
		})
		// all nodes of a real cluster share the wall clock; with virtual time every
		// node's clock is advanced to the newest timestamp inserted anywhere
		if ts.After(r.now) {
			r.now = ts
		}
		r.syncClocks()
		if err := r.leaders[c.L].Insert(r.sc.Opts.Stream, ts, dims, vals); err != nil {
			return err
		}
		return r.solo.DB.Insert(r.sc.Opts.Stream, ts, dims, vals)
	case "Connect":
		f := r.fol[c.F]
		if f.db == nil || r.leaders[c.L] == nil {
			return nil
		}
		return r.connect(f, c.L)
	case "Cut":
		r.cut(r.fol[c.F], c.L)
	case "Flush":
		f := r.fol[c.F]
		if f.db != nil {
			f.db.VerifFlushTable(c.T)
		}
	case "CrashFollower":
		f := r.fol[c.F]
		if f.db == nil {
			return nil
		}
		img := fmt.Sprintf("%s.%d", f.dir, time.Now().UnixNano())
		r.ctl.StepMu.Lock()
		err := zv.CopyImage(f.dir, img)
		r.ctl.StepMu.Unlock()
		if err != nil {
			return err
		}
		for l := range r.leaders {
			r.cut(f, l)
		}
		close(f.stopQ)
		old, olddir := f.db, f.dir
		f.db = nil
		r.closeDB(old)
		os.RemoveAll(olddir)
		f.dir = img
	case "RestartFollower":
		f := r.fol[c.F]
		if f.db != nil {
			return nil
		}
		r.ctl.Locked(func() {
			for _, tn := range r.tablesOf(f) {
				r.ctl.Reads[tn], r.ctl.Verdicts[tn], r.ctl.Offers[tn], r.ctl.Applies[tn], r.ctl.FolOffers[tn] = 0, 0, 0, 0, 0
			}
		})
		if err := r.openFollower(f); err != nil {
			return err
		}
		r.syncClocks()
	case "SnapshotFollower":
		f := r.fol[c.F]
		if f.db == nil {
			return nil
		}
		snap := f.dir + ".snap"
		os.RemoveAll(snap)
		r.ctl.StepMu.Lock()
		err := zv.CopyImage(f.dir, snap)
		r.ctl.StepMu.Unlock()
		f.snapDir = snap
		return err
	case "RestoreFollower":
		f := r.fol[c.F]
		if f.db != nil || f.snapDir == "" {
			return nil
		}
		os.RemoveAll(f.dir)
		f.dir, f.snapDir = f.snapDir, ""
	case "RestartLeader":
		r.emit(map[string]interface{}{"a": "Ev", "e": "lrestart", "l": c.L})
		ldb := r.leaders[c.L]
		for _, f := range r.fol {
			r.cut(f, c.L)
		}
		r.leaders[c.L] = nil
		r.ctl.Locked(func() {
			for name := range r.fol {
				delete(r.outst, fmt.Sprintf("%d/%s", c.L, name))
			}
		})
		r.closeDB(ldb)
		if err := r.openLeader(c.L); err != nil {
			return err
		}
		r.syncClocks()
		for _, f := range r.fol {
			if f.db != nil {
				go r.serveQueries(f, c.L, f.stopQ)
			}
		}
	case "Settle":
		if err := r.settle(); err != nil {
			return err
		}
		r.probe(c.ID)
	case "QueryFault":
		r.ctl.Locked(func() { r.faults[c.F] = *c })
	case "Drain":
		// handlers are single use and sit in the leader's queue: take the ones of
		// followers that are to be absent out of it with throw-away queries, then
		// wait until every other follower has exactly one handler registered
		for i := 0; i < 12; i++ {
			need := false
			r.ctl.Locked(func() {
				for name, ft := range r.faults {
					if ft.Fault == "absent" && r.outst[fmt.Sprintf("%d/%s", c.L, name)] > 0 {
						need = true
					}
				}
			})
			if !need {
				break
			}
			r.clusterQuery(c.L, "SELECT * FROM "+r.sc.Tables[0].Name, true, stepTimeout)
		}
		return r.ctl.WaitCond(2*stepTimeout, "query handlers to be registered", func() bool {
			for name, f := range r.fol {
				if f.db == nil {
					continue
				}
				// (a follower restarted from a crash image may have left a handler of
				// its previous incarnation behind: at least one, then)
				n := r.outst[fmt.Sprintf("%d/%s", c.L, name)]
				if r.faults[name].Fault == "absent" {
					if n != 0 {
						return false
					}
				} else if n < 1 {
					return false
				}
			}
			return true
		})
	case "Query":
		r.ctl.Locked(func() { r.hrows, r.hcalls = map[string]int{}, map[string]int{} })
		var line map[string]interface{}
		if c.NoDeadline || c.DeadlineMs != 0 || c.StallAtRow != nil {
			o := zv.QueryOpts{DeadlineMs: c.DeadlineMs, StallAtRow: -1}
			if c.StallAtRow != nil {
				o.StallAtRow = *c.StallAtRow
			}
			n := &zv.Node{DB: r.leaders[c.L], Opts: &r.sc.Opts}
			rows, stats, err := n.RawQueryOpts(c.SQL, c.Mem, o)
			line = map[string]interface{}{"raw": rows, "stats": stats}
			if rows == nil {
				line["raw"] = []zv.RawRow{}
			}
			if err != nil {
				line["err"] = err.Error()
			}
		} else {
			line = r.clusterQuery(c.L, c.SQL, c.Mem, time.Duration(c.TimeMs)*time.Millisecond+stepTimeout)
		}
		r.ctl.Locked(func() {
			line["handlerRows"], line["handlerCalls"] = r.hrows, r.hcalls
			r.hrows, r.hcalls = nil, nil
		})
		line["a"], line["id"], line["sql"], line["mem"] = "ClusterQuery", c.ID, c.SQL, c.Mem
		solo, err := r.solo.RawQuery(c.SQL, c.Mem, stepTimeout)
		line["solo"] = solo
		if solo == nil {
			line["solo"] = []zv.RawRow{}
		}
		if err != nil {
			line["soloErr"] = err.Error()
		}
		if c.Web {
			line["web"] = r.webQuery(c.L, c.SQL)
		}
		r.emit(line)
	case "Sleep":
		time.Sleep(time.Duration(c.TimeMs) * time.Millisecond)
	default:
		return fmt.Errorf("unknown command %q", c.A)
	}
	return nil
}

func (r *runner) run(sc *Scenario) {
	r.sc = sc
	base := filepath.Join(r.scratch, sc.Scn)
	os.RemoveAll(base)
	r.leaders, r.ldirs, r.fol, r.links = map[int]*zenodb.DB{}, map[int]string{}, map[string]*fnode{}, map[string]*link{}
	r.sigs, r.entries, r.lastSeen, r.included, r.faults = map[int]map[string][]int{}, map[int]int{}, map[int]int{}, map[string]int{}, map[string]Cmd{}
	r.joined = map[string]int{}
	r.outst = map[string]int{}
	r.now = time.Time{}
	offIdx := map[string]int{}
	r.ctl.Locked(func() {
		r.ctl.ResetScenario()
		r.ctl.Gated = false
		r.ctl.OnLeaderJoin = func(leader string, f common.FollowerID, table string, off, earliest [2]int64) {
			var l int
			fmt.Sscanf(leader, "@leader.%d", &l)
			key := fmt.Sprintf("%d/f%d_%d", l, f.Partition, f.ID)
			r.joined[key]++
			r.emitLocked(map[string]interface{}{"a": "Ev", "e": "join", "l": l, "f": fmt.Sprintf("f%d_%d", f.Partition, f.ID), "t": table, "off": off, "earliest": earliest})
			// the reader restarts: what the leader has seen and whom it included counts from here
			r.lastSeen[l] = 0
			r.included[key] = 0
			if lk := r.links[key]; lk != nil {
				lk.delivered = 0
			}
		}
		r.ctl.OnLeaderEntry = func(leader string, off [2]int64, data []byte, included []common.FollowerID) {
			var l int
			fmt.Sscanf(leader, "@leader.%d", &l)
			key := fmt.Sprintf("%d:%d:%d", l, off[0], off[1])
			idx, ok := offIdx[key]
			if !ok {
				q := r.sigs[l][string(data)]
				if len(q) > 0 {
					idx = q[0]
					r.sigs[l][string(data)] = q[1:]
				}
				offIdx[key] = idx
			}
			if idx > r.lastSeen[l] {
				r.lastSeen[l] = idx
			}
			{
				var inc []string
				for _, fid := range included {
					inc = append(inc, fmt.Sprintf("f%d_%d", fid.Partition, fid.ID))
				}
				r.emitLocked(map[string]interface{}{"a": "Ev", "e": "entry", "l": l, "i": idx, "off": off, "incl": inc})
			}
			for _, fid := range included {
				r.included[fmt.Sprintf("%d/f%d_%d", l, fid.Partition, fid.ID)]++
			}
		}
	})
	r.ctl.Locked(func() { r.ctl.FollowTables = len(sc.Tables) })
	r.emit(map[string]interface{}{"a": "Reset", "scn": sc.Scn})
	fail := func(i int, c *Cmd, err error) {
		r.emit(map[string]interface{}{"a": "HarnessError", "scn": sc.Scn, "cmd": i, "op": c.A, "err": err.Error()})
	}
	var err error
	for l := 0; l < sc.Topo.Leaders && err == nil; l++ {
		r.ldirs[l] = filepath.Join(base, fmt.Sprintf("leader%d", l))
		r.sigs[l] = map[string][]int{}
		err = r.openLeader(l)
	}
	if err == nil {
		r.solo, err = zv.OpenNode(filepath.Join(base, "standalone"), &sc.Opts, sc.Tables)
	}
	for p := 0; p < sc.Topo.Partitions && err == nil; p++ {
		for k := 0; k < sc.Topo.Replicas && err == nil; k++ {
			f := &fnode{name: fmt.Sprintf("f%d_%d", p, k), part: p, rid: k, dir: filepath.Join(base, fmt.Sprintf("follower%d_%d", p, k))}
			r.fol[f.name] = f
			err = r.openFollower(f)
		}
	}
	if err != nil {
		fail(-1, &Cmd{A: "Start"}, err)
	} else {
		for i := range sc.Cmds {
			if err = r.exec(&sc.Cmds[i]); err != nil {
				fail(i, &sc.Cmds[i], err)
				break
			}
		}
	}
	// tear down
	r.ctl.Drop(true)
	for _, f := range r.fol {
		if f.db != nil {
			close(f.stopQ)
			for l := range r.leaders {
				r.cut(f, l)
			}
			r.closeDB(f.db)
		}
	}
	for _, ldb := range r.leaders {
		if ldb != nil {
			r.closeDB(ldb)
		}
	}
	if r.solo != nil && r.solo.DB != nil {
		r.solo.CloseTimeout(3 * time.Second)
	}
	time.Sleep(5 * time.Millisecond)
	r.ctl.Drop(false)
	os.RemoveAll(base)
}

func main() {
	scratch := flag.String("scratch", "", "scratch directory")
	flag.Parse()
	golog.SetOutputs(ioutil.Discard, ioutil.Discard)
	os.MkdirAll(*scratch, 0755)
	tmp := filepath.Join(*scratch, "tmp")
	os.MkdirAll(tmp, 0755)
	os.Setenv("TMPDIR", tmp)
	out := bufio.NewWriterSize(os.Stdout, 1<<20)
	defer out.Flush()
	ctl := zv.NewCtl(ioutil.Discard)
	zenodb.VerifHook = ctl.Hook
	r := &runner{ctl: ctl, scratch: *scratch, out: out}
	dec := json.NewDecoder(bufio.NewReaderSize(os.Stdin, 1<<20))
	for dec.More() {
		var sc Scenario
		if err := dec.Decode(&sc); err != nil {
			fmt.Fprintln(os.Stderr, "bad scenario:", err)
			os.Exit(2)
		}
		r.run(&sc)
		r.omx.Lock()
		out.Flush()
		r.omx.Unlock()
	}
}
