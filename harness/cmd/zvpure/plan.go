package main

// C11: a query is planned with and without QueryCluster over mock tables
// whose points are split over N partitions by the table's partition keys (or
// by all dimensions of the point when it has none, like cluster_follow.go
// does); both plans are executed and the rows compared.

import (
	"bufio"
	"context"
	"encoding/json"
	"fmt"
	"hash/fnv"
	"sort"
	"strings"
	"time"

	"github.com/getlantern/bytemap"
	"github.com/getlantern/zenodb/core"
	"github.com/getlantern/zenodb/encoding"
	"github.com/getlantern/zenodb/planner"
	"github.com/getlantern/zenodb/sql"
)

type PlanPoint struct {
	TS   int                    `json:"ts"`
	Dims map[string]interface{} `json:"dims"`
	Vals map[string]float64     `json:"vals"`
}

type PlanCase struct {
	SQL         string      `json:"sql"`
	TableSQL    string      `json:"tableSQL"`
	PartitionBy []string    `json:"partitionBy"`
	N           int         `json:"N"`
	Points      []PlanPoint `json:"points"`
	Now         int         `json:"now"`
	Ret         int         `json:"ret"`
	OrderKeys   []string    `json:"orderKeys"` // sort keys of the outer ORDER BY (names; "_time")
	Limited     bool        `json:"limited"`   // LIMIT/OFFSET present
	Sound       bool        `json:"sound"`     // GenPlan!PushdownSound for this (query, partition keys, table grouping)
}

type mockRow struct {
	key  bytemap.ByteMap
	vals []encoding.Sequence
}

type mockTable struct {
	name        string
	all         core.Fields // the table's fields
	included    core.Fields
	idx         []int
	groupBy     []core.GroupBy
	partitionBy []string
	asOf, until time.Time
	rows        []mockRow
}

func (t *mockTable) GetGroupBy() []core.GroupBy   { return t.groupBy }
func (t *mockTable) GetResolution() time.Duration { return res }
func (t *mockTable) GetAsOf() time.Time           { return t.asOf }
func (t *mockTable) GetUntil() time.Time          { return t.until }
func (t *mockTable) GetPartitionBy() []string     { return t.partitionBy }
func (t *mockTable) String() string               { return t.name }
func (t *mockTable) Iterate(ctx context.Context, onFields core.OnFields, onRow core.OnRow) (interface{}, error) {
	if err := onFields(t.included); err != nil {
		return nil, err
	}
	for _, r := range t.rows {
		vals := make(core.Vals, len(t.idx))
		for o, i := range t.idx {
			// a scan hands out its own copy of every sequence
			vals[o] = append(encoding.Sequence(nil), r.vals[i]...)
		}
		more, err := onRow(append(bytemap.ByteMap(nil), r.key...), vals)
		if err != nil || !more {
			return nil, err
		}
	}
	return nil, nil
}

// buildRows aggregates points into the rows of a table with the given fields
// and grouping (nil groupBy: the table keeps every dimension).
func buildRows(fields core.Fields, groupBy []core.GroupBy, points []PlanPoint) []mockRow {
	byKey := map[string]*mockRow{}
	var order []string
	for _, p := range points {
		dims := map[string]interface{}{}
		if len(groupBy) == 0 {
			for k, v := range p.Dims {
				dims[k] = normDim(v)
			}
		} else {
			full := map[string]interface{}{}
			for k, v := range p.Dims {
				full[k] = normDim(v)
			}
			fk := bytemap.New(full)
			for _, gb := range groupBy {
				if v := gb.Expr.Eval(fk); v != nil {
					dims[gb.Name] = v
				}
			}
		}
		key := bytemap.New(dims)
		r := byKey[string(key)]
		if r == nil {
			r = &mockRow{key: key, vals: make([]encoding.Sequence, len(fields))}
			byKey[string(key)] = r
			order = append(order, string(key))
		}
		params := map[string]float64{}
		for k, v := range p.Vals {
			params[k] = v
		}
		params["_point"] = 1
		ts := tickTime(p.TS)
		for i, f := range fields {
			r.vals[i] = r.vals[i].UpdateValue(ts, planParams(params), nil, f.Expr, res, time.Time{})
		}
	}
	sort.Strings(order)
	out := make([]mockRow, 0, len(order))
	for _, k := range order {
		out = append(out, *byKey[k])
	}
	return out
}

type planParams map[string]float64

func (p planParams) Get(name string) (float64, bool) {
	v, ok := p[name]
	return v, ok
}

func normDim(v interface{}) interface{} {
	if f, ok := v.(float64); ok && f == float64(int(f)) {
		return int(f)
	}
	return v
}

func partitionOf(p *PlanPoint, keys []string, n int) int {
	h := fnv.New32a()
	if len(keys) == 0 {
		names := make([]string, 0, len(p.Dims))
		for k := range p.Dims {
			names = append(names, k)
		}
		sort.Strings(names)
		keys = names
	}
	for _, k := range keys {
		if v, ok := p.Dims[k]; ok {
			fmt.Fprintf(h, "%s=%v;", k, normDim(v))
		}
	}
	return int(h.Sum32() % uint32(n))
}

type planRow struct {
	Key  string             `json:"k"`
	TS   int64              `json:"ts"`
	Vals map[string]float64 `json:"v"`
}

func runPlan(plan core.FlatRowSource) ([]planRow, []string, error) {
	var names []string
	var rows []planRow
	_, err := plan.Iterate(context.Background(), func(f core.Fields) error {
		names = f.Names()
		return nil
	}, func(row *core.FlatRow) (bool, error) {
		dims := row.Key.AsMap()
		ks := make([]string, 0, len(dims))
		for k, v := range dims {
			ks = append(ks, fmt.Sprintf("%s=%v", k, v))
		}
		sort.Strings(ks)
		r := planRow{Key: strings.Join(ks, ","), TS: int64(time.Unix(0, row.TS).Sub(epoch) / res), Vals: map[string]float64{}}
		for i, v := range row.Values {
			if i < len(names) {
				r.Vals[names[i]] = v
			}
		}
		rows = append(rows, r)
		return true, nil
	})
	return rows, names, err
}

func rowString(r planRow) string {
	b, _ := json.Marshal(r)
	return string(b)
}

func planCase(c *Case, out *bufio.Writer, st *stats) {
	var pc PlanCase
	if err := json.Unmarshal(c.Raw, &pc); err != nil {
		fail(out, st, c, "bad plan case: "+err.Error())
		return
	}
	tq, err := sql.Parse(pc.TableSQL)
	if err != nil {
		fail(out, st, c, "harness: table SQL does not parse: "+err.Error())
		return
	}
	fields, err := tq.Fields.Get(nil)
	if err != nil {
		fail(out, st, c, "harness: table fields: "+err.Error())
		return
	}
	var groupBy []core.GroupBy
	if !tq.GroupByAll {
		groupBy = tq.GroupBy
	}
	until := tickTime(pc.Now)
	asOf := until.Add(-time.Duration(pc.Ret) * res)
	parts := make([][]PlanPoint, pc.N)
	for i := range pc.Points {
		p := partitionOf(&pc.Points[i], pc.PartitionBy, pc.N)
		parts[p] = append(parts[p], pc.Points[i])
	}
	mk := func(points []PlanPoint) func(string, func(core.Fields) (core.Fields, error)) (planner.Table, error) {
		rows := buildRows(fields, groupBy, points)
		return func(name string, included func(core.Fields) (core.Fields, error)) (planner.Table, error) {
			if name != "t" && name != "u" {
				return nil, fmt.Errorf("Table %v not found", name)
			}
			inc, err := included(fields)
			if err != nil {
				return nil, err
			}
			if inc == nil {
				inc = fields
			}
			t := &mockTable{name: name, all: fields, included: inc, groupBy: groupBy, partitionBy: pc.PartitionBy, asOf: asOf, until: until, rows: rows}
			for _, f := range inc {
				found := -1
				for i, tf := range fields {
					if tf.Name == f.Name {
						found = i
					}
				}
				if found < 0 {
					return nil, fmt.Errorf("field %v not in table", f.Name)
				}
				t.idx = append(t.idx, found)
			}
			return t, nil
		}
	}
	now := func(string) time.Time { return until }
	whole := mk(pc.Points)
	local, lerr := planner.Plan(pc.SQL, &planner.Opts{GetTable: whole, Now: now})
	var lrows []planRow
	var lnames []string
	if lerr == nil {
		lrows, lnames, lerr = runPlan(local)
	}
	partTables := make([]func(string, func(core.Fields) (core.Fields, error)) (planner.Table, error), pc.N)
	for i := range parts {
		partTables[i] = mk(parts[i])
	}
	wholePushdown := false
	normalized := ""
	if pq, err := sql.Parse(pc.SQL); err == nil {
		normalized = pq.SQL
	}
	var remoteSQL []string
	queryCluster := func(ctx context.Context, sqlString string, isSubQuery bool, subQueryResults [][]interface{}, unflat bool,
		onFields core.OnFields, onRow core.OnRow, onFlatRow core.OnFlatRow) (interface{}, error) {
		remoteSQL = append(remoteSQL, sqlString)
		if sqlString == normalized && !unflat {
			wholePushdown = true
		}
		sentFields := false
		for i := 0; i < pc.N; i++ {
			plan, err := planner.Plan(sqlString, &planner.Opts{GetTable: partTables[i], Now: now, IsSubQuery: isSubQuery, SubQueryResults: subQueryResults})
			if err != nil {
				return nil, err
			}
			of := func(f core.Fields) error {
				if sentFields {
					return nil
				}
				sentFields = true
				return onFields(f)
			}
			if unflat {
				_, err = core.UnflattenOptimized(plan).Iterate(ctx, of, onRow)
			} else {
				_, err = plan.Iterate(ctx, of, onFlatRow)
			}
			if err != nil {
				return nil, err
			}
		}
		return nil, nil
	}
	cluster, cerr := planner.Plan(pc.SQL, &planner.Opts{GetTable: whole, Now: now, QueryCluster: queryCluster})
	var crows []planRow
	var cnames []string
	if cerr == nil {
		crows, cnames, cerr = runPlan(cluster)
	}
	st.Evaluations += 2
	st.Kinds["plan"]++
	if wholePushdown {
		st.Kinds["plan.pushdown"]++
	} else if cerr == nil {
		st.Kinds["plan.nonpushdown"]++
	}
	if len(lrows) > 1 {
		st.Kinds["plan.rows>1"]++
	}
	info := func() string {
		return fmt.Sprintf(" [pushdown=%v N=%d partitionBy=%v table `%s`; remote SQL %q]", wholePushdown, pc.N, pc.PartitionBy, pc.TableSQL, remoteSQL)
	}
	if lerr != nil {
		st.Kinds["plan.localerr"]++
		msg := lerr.Error()
		if len(msg) > 48 {
			msg = msg[:48]
		}
		st.Kinds["plan.localerr: "+msg]++
		if cerr == nil {
			st.Kinds["plan.localerr.clusterok"]++
		}
		return // nothing to compare with (the statement speaks of the local plan's rows)
	}
	if cerr != nil {
		fail(out, st, c, fmt.Sprintf("the cluster plan fails (%v) where the local plan returns %d rows%s", cerr, len(lrows), info()))
		return
	}
	if wholePushdown && !pc.Sound {
		st.Kinds["plan.pushdown.unsound"]++
		b, _ := json.Marshal(map[string]interface{}{"note": "pushed down whole although the specification does not consider the groups confined", "case": json.RawMessage(c.Raw)})
		out.Write(append(b, '\n'))
	}
	if strings.Join(lnames, ",") != strings.Join(cnames, ",") {
		fail(out, st, c, fmt.Sprintf("field lists differ: local %v cluster %v%s", lnames, cnames, info()))
		return
	}
	key := func(r planRow) string { return rowString(r) }
	sortKeyOf := func(r planRow) string {
		var ks []string
		for _, k := range pc.OrderKeys {
			if k == "_time" {
				ks = append(ks, fmt.Sprint(r.TS))
			} else if v, ok := r.Vals[k]; ok {
				ks = append(ks, fmt.Sprint(v))
			} else {
				// a dimension: taken from the key string
				found := ""
				for _, part := range strings.Split(r.Key, ",") {
					if strings.HasPrefix(part, k+"=") {
						found = part
					}
				}
				ks = append(ks, found)
			}
		}
		return strings.Join(ks, "|")
	}
	if len(pc.OrderKeys) > 0 {
		// where ORDER BY decides: the sequences of sort keys agree
		if len(lrows) != len(crows) {
			fail(out, st, c, fmt.Sprintf("local plan returns %d rows, cluster plan %d%s", len(lrows), len(crows), info()))
			return
		}
		for i := range lrows {
			if sortKeyOf(lrows[i]) != sortKeyOf(crows[i]) {
				fail(out, st, c, fmt.Sprintf("row %d differs in its sort key: local %s cluster %s%s", i, rowString(lrows[i]), rowString(crows[i]), info()))
				return
			}
		}
		if pc.Limited {
			return // ties at the cut may be broken either way
		}
	} else if pc.Limited {
		if len(lrows) != len(crows) {
			fail(out, st, c, fmt.Sprintf("local plan returns %d rows, cluster plan %d%s", len(lrows), len(crows), info()))
		}
		return
	}
	a := make([]string, len(lrows))
	b := make([]string, len(crows))
	for i := range lrows {
		a[i] = key(lrows[i])
	}
	for i := range crows {
		b[i] = key(crows[i])
	}
	sort.Strings(a)
	sort.Strings(b)
	if strings.Join(a, "\n") != strings.Join(b, "\n") {
		only := func(x, y []string) []string {
			m := map[string]int{}
			for _, s := range y {
				m[s]++
			}
			var o []string
			for _, s := range x {
				if m[s] > 0 {
					m[s]--
				} else {
					o = append(o, s)
				}
			}
			return o
		}
		la, lb := only(a, b), only(b, a)
		if len(la) > 3 {
			la = la[:3]
		}
		if len(lb) > 3 {
			lb = lb[:3]
		}
		fail(out, st, c, fmt.Sprintf("rows differ (%d local, %d cluster, pushdown=%v): only local %v, only cluster %v%s", len(a), len(b), wholePushdown, la, lb, info()))
	}
}
