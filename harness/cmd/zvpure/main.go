// zvpure replays data-level cases enumerated by TLC (spec/Gen*.tla) against
// the real zenodb packages: expression accumulators (expr), stored series
// (encoding.Sequence), row sorting / limit / offset (core).
//
//	zvpure < cases.ndjson > results.ndjson
//
// One result line per failing case plus a final summary line.
package main

import (
	"bufio"
	"bytes"
	"encoding/json"
	"fmt"
	"io/ioutil"
	"math"
	"os"
	"sort"
	"time"

	"github.com/getlantern/goexpr"
	"github.com/getlantern/golog"
	"github.com/getlantern/zenodb/encoding"
	"github.com/getlantern/zenodb/expr"
)

type E struct {
	K  string `json:"k"`
	F  string `json:"f"`
	W  string `json:"w"`
	Lo int    `json:"lo"`
	Hi int    `json:"hi"`
	C  int    `json:"c"`
	V  int    `json:"v"`
	Op string `json:"op"`
	L  *E     `json:"l"`
	R  *E     `json:"r"`
	E  *E     `json:"e"`
}

type Up struct {
	A int `json:"a"`
	B int `json:"b"`
	X int `json:"x"`
}

type Exp struct {
	Float   float64 `json:"-"`
	IsFloat bool    `json:"-"`
	N       int64   `json:"n"`
	D       int64   `json:"d"`
	Set     bool    `json:"set"`
	Inf     bool    `json:"inf"`
}

type Case struct {
	Kind string          `json:"kind"`
	E    *E              `json:"e"`
	Ups  []Up            `json:"ups"`
	Exp  *Exp            `json:"-"`
	ExpR json.RawMessage `json:"exp"`
	Law  bool            `json:"law"`
	Raw  json.RawMessage `json:"-"`
	// series cases
	A     *Series `json:"sa"`
	B     *Series `json:"sb"`
	Cut   int     `json:"cut"`
	AsOf  int     `json:"asOf"`  // half ticks, 0 = none
	Until int     `json:"until"` // half ticks, 0 = none
	Ex    string  `json:"ex"`
}

type Series struct {
	Until int   `json:"until"`
	Len   int   `json:"len"`
	Set   []int `json:"set"`
}

func build(e *E) expr.Expr {
	switch e.K {
	case "SUM":
		return expr.SUM(e.F)
	case "COUNT":
		return expr.COUNT(e.F)
	case "MIN":
		return expr.MIN(e.F)
	case "MAX":
		return expr.MAX(e.F)
	case "AVG":
		return expr.AVG(e.F)
	case "WAVG":
		return expr.WAVG(e.F, e.W)
	case "BSUM":
		return expr.SUM(expr.BOUNDED(e.F, float64(e.Lo), float64(e.Hi)))
	case "BAVG":
		return expr.AVG(expr.BOUNDED(e.F, float64(e.Lo), float64(e.Hi)))
	case "CONST":
		return expr.CONST(float64(e.V))
	case "PTILE":
		return expr.PERCENTILE(e.F, 50, 0, 10, 1)
	case "PTILEOPT":
		return expr.PERCENTILEOPT(expr.PERCENTILE(e.F, 90, 0, 10, 1), 50)
	case "LN", "LOG2", "LOG10":
		u, err := expr.UnaryMath(e.K, expr.SUM(e.F))
		if err != nil {
			panic(err)
		}
		return u
	case "SHIFT":
		return expr.SHIFT(expr.SUM(e.F), -2*time.Second)
	case "IF":
		cond, err := goexpr.Binary("=", goexpr.Param("x"), goexpr.Constant(e.C))
		if err != nil {
			panic(err)
		}
		return expr.IF(cond, build(e.E))
	case "BIN":
		l, r := build(e.L), build(e.R)
		switch e.Op {
		case "+":
			return expr.ADD(l, r)
		case "-":
			return expr.SUB(l, r)
		case "*":
			return expr.MULT(l, r)
		case "/":
			return expr.DIV(l, r)
		case "<":
			return expr.LT(l, r)
		case "<=":
			return expr.LTE(l, r)
		case "=":
			return expr.EQ(l, r)
		case "<>":
			return expr.NEQ(l, r)
		case ">=":
			return expr.GTE(l, r)
		case ">":
			return expr.GT(l, r)
		case "AND":
			return expr.AND(l, r)
		case "OR":
			return expr.OR(l, r)
		}
	}
	panic("unknown expression kind " + e.K + e.Op)
}

type md map[string]interface{}

func (m md) Get(name string) interface{} { return m[name] }

func apply(e expr.Expr, ups []Up) []byte {
	b := make([]byte, e.EncodedWidth())
	for _, u := range ups {
		p := expr.Map{}
		if u.A >= 0 {
			p["a"] = float64(u.A)
		}
		if u.B >= 0 {
			p["b"] = float64(u.B)
		}
		e.Update(b, p, md{"x": u.X})
	}
	return b
}

func merge(e expr.Expr, x, y []byte) []byte {
	out := make([]byte, e.EncodedWidth())
	e.Merge(out, x, y)
	return out
}

func agrees(e expr.Expr, b []byte, exp *Exp) (bool, string) {
	v, set, _ := e.Get(b)
	if exp.Inf {
		if !set || v < 1e300 {
			return false, fmt.Sprintf("got %v set=%v, expected a very large value", v, set)
		}
		return true, ""
	}
	if set != exp.Set {
		// a constant is "set" without any update; the specification says so too
		return false, fmt.Sprintf("got set=%v value %v, expected set=%v %d/%d", set, v, exp.Set, exp.N, exp.D)
	}
	want := 0.0
	if exp.IsFloat {
		want = exp.Float
	} else if exp.Set {
		want = float64(exp.N) / float64(exp.D)
	}
	if math.IsNaN(want) && math.IsNaN(v) || math.IsInf(want, 0) && want == v {
		return true, ""
	}
	if math.Abs(v-want) > 1e-9*math.Max(1, math.Abs(want)) {
		return false, fmt.Sprintf("got %v, expected %d/%d", v, exp.N, exp.D)
	}
	return true, ""
}

func jsonUnmarshal(b []byte, v interface{}) error { return json.Unmarshal(b, v) }

type stats struct {
	Cases, Evaluations, Failures int
	Kinds                        map[string]int
}

func fail(out *bufio.Writer, st *stats, c *Case, what string) {
	st.Failures++
	b, _ := json.Marshal(map[string]interface{}{"fail": what, "case": json.RawMessage(c.Raw)})
	out.Write(append(b, '\n'))
}

func exprCase(c *Case, out *bufio.Writer, st *stats) {
	e := build(c.E)
	if err := e.Validate(); err != nil {
		return // not a valid expression in zenodb (e.g. comparison of constants): nothing to check
	}
	st.Kinds["expr"]++
	whole := apply(e, c.Ups)
	st.Evaluations++
	if c.Law {
		// no value oracle: the reference is the state of all updates
		v, set, _ := e.Get(whole)
		c.Exp = &Exp{Set: set}
		if set {
			c.Exp.Float, c.Exp.IsFloat = v, true
		}
	} else if ok, why := agrees(e, whole, c.Exp); !ok {
		fail(out, st, c, "accumulating all updates: "+why)
		return
	}
	n := len(c.Ups)
	// every split in two parts, merged in both orders; operands untouched
	for cut := 0; cut <= n; cut++ {
		x, y := apply(e, c.Ups[:cut]), apply(e, c.Ups[cut:])
		x0, y0 := append([]byte(nil), x...), append([]byte(nil), y...)
		for _, pair := range [][2][]byte{{x, y}, {y, x}} {
			m := merge(e, pair[0], pair[1])
			st.Evaluations++
			if ok, why := agrees(e, m, c.Exp); !ok {
				fail(out, st, c, fmt.Sprintf("merge of parts split at %d: %s", cut, why))
				return
			}
		}
		if !bytes.Equal(x, x0) || !bytes.Equal(y, y0) {
			fail(out, st, c, fmt.Sprintf("merge modified an operand (split at %d)", cut))
			return
		}
		// three parts, both associations
		for cut2 := cut; cut2 <= n; cut2++ {
			p1, p2, p3 := apply(e, c.Ups[:cut]), apply(e, c.Ups[cut:cut2]), apply(e, c.Ups[cut2:])
			l := merge(e, merge(e, p1, p2), p3)
			r := merge(e, p1, merge(e, p2, p3))
			st.Evaluations += 2
			if ok, why := agrees(e, l, c.Exp); !ok {
				fail(out, st, c, fmt.Sprintf("(p1+p2)+p3 split at %d,%d: %s", cut, cut2, why))
				return
			}
			if ok, why := agrees(e, r, c.Exp); !ok {
				fail(out, st, c, fmt.Sprintf("p1+(p2+p3) split at %d,%d: %s", cut, cut2, why))
				return
			}
		}
	}
}

var epoch = time.Date(2020, 1, 1, 0, 0, 0, 0, time.UTC)

const res = 2 * time.Second

func tickTime(p int) time.Time { return epoch.Add(time.Duration(p) * res) }
func halfTime(h int) time.Time {
	if h == 0 {
		return time.Time{}
	}
	return epoch.Add(time.Duration(h) * res / 2)
}

func seriesExpr(name string) expr.Expr {
	switch name {
	case "AVG":
		return expr.AVG("a")
	case "MIN":
		return expr.MIN("a")
	case "MAX":
		return expr.MAX("a")
	case "COUNT":
		return expr.COUNT("a")
	}
	return expr.SUM("a")
}

// mkSeries builds a real sequence: len periods ending at until, the periods in
// set carrying the value v.
func mkSeries(s *Series, e expr.Expr, v float64) encoding.Sequence {
	if s.Len == 0 {
		return nil
	}
	seq := encoding.NewSequence(e.EncodedWidth(), s.Len)
	seq.SetUntil(tickTime(s.Until))
	for _, p := range s.Set {
		seq.UpdateValueAt(s.Until-p, e, expr.Map{"a": v}, nil)
	}
	return seq
}

// decode: period -> value for the set periods of a sequence
func decode(seq encoding.Sequence, e expr.Expr) map[int]float64 {
	out := map[int]float64{}
	if len(seq) == 0 {
		return out
	}
	until := int(seq.Until().Sub(epoch) / res)
	n := seq.NumPeriods(e.EncodedWidth())
	for i := 0; i < n; i++ {
		if v, ok := seq.ValueAt(i, e); ok {
			out[until-i] = v
		}
	}
	return out
}

func in(set []int, p int) bool {
	for _, x := range set {
		if x == p {
			return true
		}
	}
	return false
}

// expectedValue of a period fed by series A (value 1) and/or B (value 3)
func expectedValue(ex string, a, b bool) float64 {
	switch {
	case a && b:
		switch ex {
		case "AVG":
			return 2
		case "MIN":
			return 1
		case "MAX":
			return 3
		case "COUNT":
			return 2
		}
		return 4
	case a:
		if ex == "COUNT" {
			return 1
		}
		return 1
	default:
		if ex == "COUNT" {
			return 1
		}
		return 3
	}
}

func mergeCase(c *Case, out *bufio.Writer, st *stats) {
	st.Kinds["merge"]++
	e := seriesExpr(c.Ex)
	a, b := mkSeries(c.A, e, 1), mkSeries(c.B, e, 3)
	a0, b0 := append(encoding.Sequence(nil), a...), append(encoding.Sequence(nil), b...)
	cut := time.Time{}
	if c.Cut > 0 {
		cut = halfTime(c.Cut)
	}
	for dir := 0; dir < 2; dir++ {
		var m encoding.Sequence
		if dir == 0 {
			m = a.Merge(b, e, res, cut)
		} else {
			m = b.Merge(a, e, res, cut)
		}
		st.Evaluations++
		got := decode(m, e)
		// every period: expected contributions; live periods exact, periods
		// wholly before the cut may have lost one side or be gone
		lo, hi := 1, 16
		for p := lo; p <= hi; p++ {
			ea, eb := in(c.A.Set, p), in(c.B.Set, p)
			v, has := got[p]
			// period p covers (p-1, p] ticks = (2p-2, 2p] half ticks
			live := c.Cut == 0 || 2*p-2 >= c.Cut
			switch {
			case !ea && !eb:
				if has {
					fail(out, st, c, fmt.Sprintf("merged series has a value %v in period %d that neither operand has", v, p))
					return
				}
			case live:
				if !has || v != expectedValue(c.Ex, ea, eb) {
					fail(out, st, c, fmt.Sprintf("period %d: got %v (present=%v), expected %v", p, v, has, expectedValue(c.Ex, ea, eb)))
					return
				}
			default:
				ok := !has || v == expectedValue(c.Ex, ea, eb) || (ea && v == expectedValue(c.Ex, true, false)) || (eb && v == expectedValue(c.Ex, false, true))
				if !ok {
					fail(out, st, c, fmt.Sprintf("expired period %d: got %v, which is not a value of the operands", p, v))
					return
				}
			}
		}
	}
	if !bytes.Equal(a, a0) || !bytes.Equal(b, b0) {
		fail(out, st, c, "Merge modified an operand")
	}
}

func truncCase(c *Case, out *bufio.Writer, st *stats) {
	st.Kinds["trunc"]++
	e := seriesExpr(c.Ex)
	a := mkSeries(c.A, e, 1)
	a0 := append(encoding.Sequence(nil), a...)
	t := a.Truncate(e.EncodedWidth(), res, halfTime(c.AsOf), halfTime(c.Until))
	st.Evaluations++
	got := decode(t, e)
	for p := 1; p <= 16; p++ {
		has := in(c.A.Set, p)
		_, kept := got[p]
		// period p = half ticks (2p-2, 2p]
		inside := (c.AsOf == 0 || 2*p-2 >= c.AsOf) && (c.Until == 0 || 2*p <= c.Until)
		outside := (c.AsOf != 0 && 2*p <= c.AsOf) || (c.Until != 0 && 2*p-2 >= c.Until)
		switch {
		case !has && kept:
			fail(out, st, c, fmt.Sprintf("truncated series has a value in period %d that the original has not", p))
			return
		case has && inside && !kept:
			fail(out, st, c, fmt.Sprintf("period %d lies inside (asOf, until] but was dropped", p))
			return
		case has && outside && kept:
			fail(out, st, c, fmt.Sprintf("period %d lies outside (asOf, until] but was kept", p))
			return
		case has && kept && got[p] != 1:
			fail(out, st, c, fmt.Sprintf("period %d changed its value to %v", p, got[p]))
			return
		}
	}
	if !bytes.Equal(a, a0) {
		fail(out, st, c, "Truncate modified the original series: "+a.String(e, res)+" was "+a0.String(e, res))
	}
}

func main() {
	golog.SetOutputs(ioutil.Discard, ioutil.Discard)
	in := bufio.NewReaderSize(os.Stdin, 1<<20)
	out := bufio.NewWriterSize(os.Stdout, 1<<20)
	defer out.Flush()
	st := &stats{Kinds: map[string]int{}}
	sc := bufio.NewScanner(in)
	sc.Buffer(make([]byte, 1<<20), 1<<26)
	for sc.Scan() {
		line := sc.Bytes()
		if len(bytes.TrimSpace(line)) == 0 {
			continue
		}
		var c Case
		if err := json.Unmarshal(line, &c); err != nil {
			fmt.Fprintln(os.Stderr, "bad case:", err)
			os.Exit(2)
		}
		c.Raw = append([]byte(nil), line...)
		if (c.Kind == "" || c.Kind == "expr" || c.Kind == "codec.expr") && len(c.ExpR) > 0 {
			c.Exp = &Exp{}
			if err := json.Unmarshal(c.ExpR, c.Exp); err != nil {
				fmt.Fprintln(os.Stderr, "bad case:", err)
				os.Exit(2)
			}
		}
		st.Cases++
		switch c.Kind {
		case "", "expr":
			exprCase(&c, out, st)
		case "merge":
			mergeCase(&c, out, st)
		case "trunc":
			truncCase(&c, out, st)
		case "sort":
			sortCase(&c, out, st)
		case "plan":
			planCase(&c, out, st)
		case "codec.expr":
			codecExprCase(&c, out, st)
		case "codec.value":
			codecValueCase(&c, out, st)
		default:
			fmt.Fprintln(os.Stderr, "unknown case kind", c.Kind)
			os.Exit(2)
		}
	}
	keys := make([]string, 0, len(st.Kinds))
	for k := range st.Kinds {
		keys = append(keys, k)
	}
	sort.Strings(keys)
	b, _ := json.Marshal(map[string]interface{}{"summary": st})
	out.Write(append(b, '\n'))
}
