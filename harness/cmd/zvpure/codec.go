package main

// C20 (i): objects that cross the rpc boundary are passed through the real
// rpc.Codec; the decoded object must behave like the original.

import (
	"bufio"
	"bytes"
	"fmt"
	"math"
	"reflect"
	"time"

	"github.com/getlantern/bytemap"
	"github.com/getlantern/wal"
	"github.com/getlantern/zenodb/common"
	"github.com/getlantern/zenodb/core"
	"github.com/getlantern/zenodb/encoding"
	"github.com/getlantern/zenodb/expr"
	"github.com/getlantern/zenodb/rpc"
)

// codecExprCase: an expression of spec/GenExpr.tla travels as part of a field
// list (RemoteQueryResult.Fields, the first message of a remote query); the
// decoded expression has the same text and width, accumulates the updates to
// the expected value, and merges with states of the original.
func codecExprCase(c *Case, out *bufio.Writer, st *stats) {
	e := build(c.E)
	if err := e.Validate(); err != nil {
		return
	}
	st.Kinds["codec.expr"]++
	msg := &rpc.RemoteQueryResult{Fields: core.Fields{core.NewField("fld", e), core.PointsField}}
	b, err := rpc.Codec.Marshal(msg)
	if err != nil {
		fail(out, st, c, "marshal: "+err.Error())
		return
	}
	back := &rpc.RemoteQueryResult{}
	if err := rpc.Codec.Unmarshal(b, back); err != nil {
		fail(out, st, c, "unmarshal: "+err.Error())
		return
	}
	st.Evaluations++
	if len(back.Fields) != 2 || back.Fields[0].Name != "fld" || back.Fields[1].Name != "_points" {
		fail(out, st, c, fmt.Sprintf("field list changed: %v", back.Fields))
		return
	}
	d := back.Fields[0].Expr
	if d.String() != e.String() {
		fail(out, st, c, fmt.Sprintf("expression text changed: %q became %q", e.String(), d.String()))
		return
	}
	if d.EncodedWidth() != e.EncodedWidth() || d.Shift() != e.Shift() || d.IsConstant() != e.IsConstant() {
		fail(out, st, c, fmt.Sprintf("width/shift/constness changed: %d/%v/%v became %d/%v/%v", e.EncodedWidth(), e.Shift(), e.IsConstant(),
			d.EncodedWidth(), d.Shift(), d.IsConstant()))
		return
	}
	if err := d.Validate(); err != nil {
		fail(out, st, c, "the decoded expression does not validate: "+err.Error())
		return
	}
	whole := apply(d, c.Ups)
	ref := apply(e, c.Ups)
	st.Evaluations++
	if !bytes.Equal(whole, ref) {
		fail(out, st, c, "the decoded expression accumulates the updates into a different state")
		return
	}
	if !c.Law {
		if ok, why := agrees(d, whole, c.Exp); !ok {
			fail(out, st, c, "decoded expression, all updates: "+why)
			return
		}
	} else {
		v, set, _ := e.Get(ref)
		c.Exp = &Exp{Set: set, Float: v, IsFloat: set}
	}
	// states of the original merged by the decoded expression and vice versa
	n := len(c.Ups)
	for cut := 0; cut <= n; cut++ {
		x, y := apply(e, c.Ups[:cut]), apply(d, c.Ups[cut:])
		for _, m := range [][]byte{merge(d, x, y), merge(e, y, x)} {
			st.Evaluations++
			if ok, why := agrees(d, m, c.Exp); !ok {
				fail(out, st, c, fmt.Sprintf("decoded merged with original, split at %d: %s", cut, why))
				return
			}
		}
	}
	// sub-mergers: the leader interprets follower series with the decoded
	// expressions; they must be recognised exactly where the original is
	self := e.SubMergers([]expr.Expr{e})
	if sms := e.SubMergers([]expr.Expr{d}); len(sms) != 1 || (sms[0] == nil) != (self[0] == nil) {
		fail(out, st, c, "the original does not treat the decoded expression like itself (SubMergers)")
		return
	}
	if sms := d.SubMergers([]expr.Expr{e}); len(sms) != 1 || (sms[0] == nil) != (self[0] == nil) {
		fail(out, st, c, "the decoded expression does not treat the original like itself (SubMergers)")
		return
	}
}

type WireVal struct {
	Dims map[string]interface{} `json:"dims"`
	Vals map[string]interface{} `json:"vals"`
	TS   int                    `json:"ts"`
	Sub  [][]interface{}        `json:"sub"`
}

func typed(v interface{}, i int) interface{} {
	f, ok := v.(float64)
	if !ok {
		return v
	}
	// the scalar types a dimension or value may have
	switch i % 8 {
	case 0:
		return f
	case 1:
		return int(f)
	case 2:
		return int64(f)
	case 3:
		return float32(f)
	case 4:
		return uint8(f)
	case 5:
		return int16(f)
	case 6:
		return uint32(f)
	}
	return uint64(f)
}

// codecValueCase: dimension / value maps, rows, series, points and query
// messages through the codec.
func codecValueCase(c *Case, out *bufio.Writer, st *stats) {
	var w WireVal
	if err := jsonUnmarshal(c.Raw, &w); err != nil {
		fail(out, st, c, "bad case: "+err.Error())
		return
	}
	st.Kinds["codec.value"]++
	for variant := 0; variant < 8; variant++ {
		dims := map[string]interface{}{}
		i := variant
		for k, v := range w.Dims {
			dims[k] = typed(v, i)
			i++
		}
		key := bytemap.New(dims)
		e := expr.SUM("w")
		ts := epoch.Add(time.Duration(w.TS) * time.Second)
		var seq encoding.Sequence
		for _, v := range w.Vals {
			if f, ok := v.(float64); ok {
				seq = seq.UpdateValue(ts, expr.Map{"w": f}, nil, e, time.Second, time.Time{})
				ts = ts.Add(time.Second)
			}
		}
		// values a row can carry: fractions, whole numbers, what x / 0 yields, sums beyond the int64 range, infinities
		flat := &core.FlatRow{TS: ts.UnixNano(), Key: key, Values: [][]float64{{1.5, -2, 0}, {math.MaxFloat64, 9.3e18, -9.3e18},
			{math.Inf(1), math.Inf(-1), 9223372036854775808}, {math.NaN(), -0.0, 1e-300}, {float64(1 << 53), -float64(1 << 62), 4611686018427387904}}[variant%5]}
		stats := &common.QueryStats{NumPartitions: 3, NumSuccessfulPartitions: 2, LowestHighWaterMark: 5, HighestHighWaterMark: 9, MissingPartitions: []int{1}}
		msgs := []interface{}{
			&rpc.RemoteQueryResult{Key: key, Vals: core.Vals{seq, nil}},
			&rpc.RemoteQueryResult{Row: flat},
			&rpc.RemoteQueryResult{Stats: stats, EndOfResults: true, Error: "some error"},
			&rpc.Insert{Stream: "s", TS: ts.UnixNano(), Dims: key, Vals: bytemap.New(map[string]interface{}{"w": 1.0})},
			&rpc.Query{SQLString: "SELECT * FROM t WHERE a = 'ü'", IsSubQuery: true, SubQueryResults: w.Sub, IncludeMemStore: true, Unflat: true,
				Deadline: ts, HasDeadline: true},
			&rpc.Point{Data: []byte(key), Offset: wal.NewOffset(3, 77)},
			&common.Follow{FollowerID: common.FollowerID{Partition: 1, ID: 2}, Stream: "s", EarliestOffset: wal.NewOffset(1, 5),
				Partitions: map[string]*common.Partition{"a|b": {Keys: []string{"a", "b"}, Tables: []*common.PartitionTable{{Name: "t",
					Offsets: common.OffsetsBySource{1: wal.NewOffset(2, 9)}}}}}},
			&common.QueryMetaData{FieldNames: []string{"f", "g"}, AsOf: ts.Add(-time.Hour), Until: ts, Resolution: time.Second, Plan: "plan"},
			&rpc.InsertReport{Received: 3, Succeeded: 2, Errors: map[int]string{1: "bad"}},
		}
		for _, m := range msgs {
			b, err := rpc.Codec.Marshal(m)
			if err != nil {
				fail(out, st, c, fmt.Sprintf("marshal %T: %v", m, err))
				return
			}
			back := reflect.New(reflect.TypeOf(m).Elem()).Interface()
			if err := rpc.Codec.Unmarshal(b, back); err != nil {
				fail(out, st, c, fmt.Sprintf("unmarshal %T: %v", m, err))
				return
			}
			st.Evaluations++
			if why := sameMessage(m, back, e); why != "" {
				fail(out, st, c, fmt.Sprintf("%T (dimension types variant %d): %s", m, variant, why))
				return
			}
		}
	}
}

func sameMessage(a, b interface{}, e expr.Expr) string {
	switch x := a.(type) {
	case *rpc.RemoteQueryResult:
		y := b.(*rpc.RemoteQueryResult)
		if !bytes.Equal(x.Key, y.Key) {
			return fmt.Sprintf("key %v became %v", x.Key.AsMap(), y.Key.AsMap())
		}
		if len(x.Vals) != len(y.Vals) {
			return "number of series changed"
		}
		for i := range x.Vals {
			if !bytes.Equal(x.Vals[i], y.Vals[i]) {
				return fmt.Sprintf("series %d changed: %v became %v", i, x.Vals[i].String(e, time.Second), y.Vals[i].String(e, time.Second))
			}
		}
		if (x.Row == nil) != (y.Row == nil) {
			return "row presence changed"
		}
		if x.Row != nil {
			same := x.Row.TS == y.Row.TS && bytes.Equal(x.Row.Key, y.Row.Key) && len(x.Row.Values) == len(y.Row.Values)
			for i := 0; same && i < len(x.Row.Values); i++ {
				same = math.Float64bits(x.Row.Values[i]) == math.Float64bits(y.Row.Values[i])
			}
			if !same {
				return fmt.Sprintf("flat row %v %v became %v %v", x.Row.Key.AsMap(), x.Row.Values, y.Row.Key.AsMap(), y.Row.Values)
			}
		}
		if !reflect.DeepEqual(x.Stats, y.Stats) || x.Error != y.Error || x.EndOfResults != y.EndOfResults {
			return fmt.Sprintf("closing message %+v %q became %+v %q", x.Stats, x.Error, y.Stats, y.Error)
		}
	case *rpc.Insert:
		y := b.(*rpc.Insert)
		if x.Stream != y.Stream || x.TS != y.TS || !bytes.Equal(x.Dims, y.Dims) || !bytes.Equal(x.Vals, y.Vals) || x.EndOfInserts != y.EndOfInserts {
			return "insert message changed"
		}
	case *rpc.Query:
		y := b.(*rpc.Query)
		if x.SQLString != y.SQLString || x.IsSubQuery != y.IsSubQuery || x.IncludeMemStore != y.IncludeMemStore || x.Unflat != y.Unflat ||
			x.HasDeadline != y.HasDeadline || !x.Deadline.Equal(y.Deadline) {
			return fmt.Sprintf("query message %+v became %+v", x, y)
		}
		if len(x.SubQueryResults) != len(y.SubQueryResults) {
			return "number of sub-query results changed"
		}
		for i := range x.SubQueryResults {
			if len(x.SubQueryResults[i]) != len(y.SubQueryResults[i]) {
				return "sub-query result length changed"
			}
			for j := range x.SubQueryResults[i] {
				// IN compares the dimension's value with these: they must still be equal to the originals
				if fmt.Sprint(x.SubQueryResults[i][j]) != fmt.Sprint(y.SubQueryResults[i][j]) {
					return fmt.Sprintf("sub-query value %v (%T) became %v (%T)", x.SubQueryResults[i][j], x.SubQueryResults[i][j], y.SubQueryResults[i][j], y.SubQueryResults[i][j])
				}
			}
		}
	case *rpc.Point:
		y := b.(*rpc.Point)
		if !bytes.Equal(x.Data, y.Data) || !bytes.Equal(x.Offset, y.Offset) {
			return "point changed"
		}
	case *common.Follow:
		y := b.(*common.Follow)
		if !reflect.DeepEqual(x, y) {
			return fmt.Sprintf("follow message %+v became %+v", x, y)
		}
	case *common.QueryMetaData:
		y := b.(*common.QueryMetaData)
		if !reflect.DeepEqual(x.FieldNames, y.FieldNames) || !x.AsOf.Equal(y.AsOf) || !x.Until.Equal(y.Until) || x.Resolution != y.Resolution || x.Plan != y.Plan {
			return fmt.Sprintf("metadata %+v became %+v", x, y)
		}
	case *rpc.InsertReport:
		if !reflect.DeepEqual(a, b) {
			return "insert report changed"
		}
	}
	return ""
}
