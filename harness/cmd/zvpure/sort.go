package main

import "bufio"

func sortCase(c *Case, out *bufio.Writer, st *stats) {
	// filled in by the C09 check
	st.Kinds["sort"]++
}
