package main

import (
	"bufio"
	"context"
	"encoding/json"
	"fmt"
	"time"

	"github.com/getlantern/bytemap"
	"github.com/getlantern/zenodb/core"
	"github.com/getlantern/zenodb/expr"
)

type sortRow struct {
	TS int `json:"ts"`
	D  int `json:"d"`
	F  int `json:"f"`
	G  int `json:"g"`
}

type sortKey struct {
	K    string `json:"k"`
	Desc bool   `json:"desc"`
}

type sortCaseT struct {
	Rows []sortRow `json:"rows"`
	Keys []sortKey `json:"keys"`
	N    int       `json:"n"`
	M    int       `json:"m"`
	Exp  [][]int   `json:"exp"`
}

var dimNames = []string{"", "x", "y"}

// flatSource feeds fixed flat rows into core.Sort / Offset / Limit.
type flatSource struct {
	fields core.Fields
	rows   []*core.FlatRow
}

func (s *flatSource) GetGroupBy() []core.GroupBy   { return nil }
func (s *flatSource) GetResolution() time.Duration { return time.Second }
func (s *flatSource) GetAsOf() time.Time           { return time.Time{} }
func (s *flatSource) GetUntil() time.Time          { return time.Time{} }
func (s *flatSource) String() string               { return "rows" }
func (s *flatSource) Iterate(ctx context.Context, onFields core.OnFields, onRow core.OnFlatRow) (interface{}, error) {
	if err := onFields(s.fields); err != nil {
		return nil, err
	}
	for _, r := range s.rows {
		more, err := onRow(r)
		if err != nil || !more {
			return nil, err
		}
	}
	return nil, nil
}

func sortCase(c *Case, out *bufio.Writer, st *stats) {
	st.Kinds["sort"]++
	var sc sortCaseT
	if err := json.Unmarshal(c.Raw, &sc); err != nil {
		panic(err)
	}
	fields := core.Fields{core.NewField("f", expr.FIELD("f")), core.NewField("g", expr.FIELD("g"))}
	src := &flatSource{fields: fields}
	for _, r := range sc.Rows {
		dims := map[string]interface{}{}
		if r.D > 0 {
			dims["d"] = dimNames[r.D]
		}
		row := &core.FlatRow{TS: int64(r.TS) * int64(time.Second), Key: bytemap.New(dims), Values: []float64{float64(r.F) * 0.25, float64(r.G) * 0.25}} // fractions: close values must still be told apart
		row.SetFields(fields)
		src.rows = append(src.rows, row)
	}
	var flat core.FlatRowSource = src
	if len(sc.Keys) > 0 {
		var by []core.OrderBy
		for _, k := range sc.Keys {
			by = append(by, core.NewOrderBy(k.K, k.Desc))
		}
		flat = core.Sort(flat, by...)
	}
	if sc.M > 0 {
		flat = core.Offset(flat, sc.M)
	}
	if sc.N > 0 {
		flat = core.Limit(flat, sc.N)
	}
	var got []*core.FlatRow
	_, err := flat.Iterate(context.Background(), core.FieldsIgnored, func(r *core.FlatRow) (bool, error) {
		got = append(got, r)
		return true, nil
	})
	st.Evaluations++
	if err != nil {
		fail(out, st, c, "error: "+err.Error())
		return
	}
	if len(got) != len(sc.Exp) {
		fail(out, st, c, fmt.Sprintf("returned %d rows, expected %d", len(got), len(sc.Exp)))
		return
	}
	// every returned row is one of the input rows (each used at most once)
	used := make([]bool, len(src.rows))
	for _, g := range got {
		found := false
		for i, r := range src.rows {
			if !used[i] && r == g {
				used[i], found = true, true
				break
			}
		}
		if !found {
			fail(out, st, c, "returned a row that is not (or no longer) in the input")
			return
		}
	}
	if len(sc.Keys) == 0 {
		return // unordered: any rows of the input will do
	}
	// position by position the key vector is the one of the ordered result
	for i, g := range got {
		for j, k := range sc.Keys {
			var v int
			switch k.K {
			case "_time":
				v = int(g.TS / int64(time.Second))
			case "d":
				v = 0
				if d := g.Key.Get("d"); d != nil {
					for n, name := range dimNames {
						if name == d.(string) {
							v = n
						}
					}
				}
			case "f":
				v = int(g.Values[0] * 4)
			case "g":
				v = int(g.Values[1] * 4)
			}
			if k.Desc {
				v = -v
			}
			if v != sc.Exp[i][j] {
				fail(out, st, c, fmt.Sprintf("row %d of the result has key %s = %d, the ordered result has %d there", i, k.K, v, sc.Exp[i][j]))
				return
			}
		}
	}
}
