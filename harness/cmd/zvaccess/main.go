// zvaccess replays the request batches exported by spec/Access.tla (C19) on a
// real rpc server (rpcserver.PrepareServer over 127.0.0.1) and a real web
// handler (web.Configure behind httptest): for every distinct state of the
// specification it performs the history that reaches the state (real OAuth
// code flows against a stub GitHub, clock ticks emulated by re-encoding the
// issued session with an earlier expiration, membership revocations, outages
// of the membership API) and then fires every request of the batch, reporting
// for each whether data was served.
package main

import (
	"bufio"
	"bytes"
	"compress/gzip"
	"context"
	"encoding/json"
	"flag"
	"fmt"
	"io"
	"io/ioutil"
	"net"
	"net/http"
	"net/http/httptest"
	"net/url"
	"os"
	"path/filepath"
	"strings"
	"sync"
	"time"

	"github.com/getlantern/bytemap"
	"github.com/getlantern/zenodb"
	"github.com/getlantern/zenodb/common"
	"github.com/getlantern/zenodb/core"
	"github.com/getlantern/zenodb/rpc"
	rpcserver "github.com/getlantern/zenodb/rpc/server"
	"github.com/getlantern/zenodb/web"
	"github.com/gorilla/mux"
	"github.com/gorilla/securecookie"
)

const (
	hashKey     = "0123456789abcdef0123456789abcdef0123456789abcdef0123456789abcdef"
	blockKey    = "0123456789abcdef0123456789abcdef"
	webPassword = "web-static-token"
	rpcPassword = "rpc-secret"
	sqlText     = "SELECT * FROM t"
	canarySQL   = "SELECT f FROM t"
)

type Cfg struct {
	RpcPw bool `json:"rpcPw"`
	Oauth bool `json:"oauth"`
	WebPw bool `json:"webPw"`
}

type Step struct {
	A         string `json:"a"`
	Tok       string `json:"tok"`
	State     string `json:"state"`
	Issued    bool   `json:"issued"`
	MustIssue bool   `json:"mustIssue"`
}

type Ck struct {
	Kind    string `json:"kind"`
	Tok     string `json:"tok"`
	Exp     int    `json:"exp"`
	Expired bool   `json:"expired"`
}

type HttpReq struct {
	Ep     string `json:"ep"`
	Hdr    string `json:"hdr"`
	Ck     Ck     `json:"ck"`
	Must   string `json:"must"`
	Decide string `json:"decide"`
}

type RpcReq struct {
	Ep     string `json:"ep"`
	Pw     string `json:"pw"`
	Must   string `json:"must"`
	Decide string `json:"decide"`
}

type Batch struct {
	ID     int       `json:"id"`
	Cfg    Cfg       `json:"cfg"`
	Hist   []Step    `json:"hist"`
	Now    int       `json:"now"`
	Github string    `json:"github"`
	InOrg  []string  `json:"inOrg"`
	Http   []HttpReq `json:"http"`
	Rpc    []RpcReq  `json:"rpc"`
	Logins []Step    `json:"logins"`
	SLen   int       `json:"sessionLen"`
}

// ---- stub GitHub ------------------------------------------------------------

type github struct {
	mx       sync.Mutex
	inOrg    map[string]bool
	orgsDown bool
	calls    int
}

func (g *github) RoundTrip(req *http.Request) (*http.Response, error) {
	g.mx.Lock()
	defer g.mx.Unlock()
	g.calls++
	resp := func(code int, body string) (*http.Response, error) {
		return &http.Response{StatusCode: code, Status: fmt.Sprint(code), Proto: "HTTP/1.1", ProtoMajor: 1, ProtoMinor: 1,
			Header: http.Header{"Content-Type": []string{"application/json"}}, Body: ioutil.NopCloser(strings.NewReader(body)), Request: req}, nil
	}
	switch {
	case req.URL.Host == "github.com" && strings.HasPrefix(req.URL.Path, "/login/oauth/access_token"):
		// the code presented by the browser is exchanged for the user's token
		return resp(200, fmt.Sprintf(`{"access_token": %q}`, req.URL.Query().Get("code")))
	case req.URL.Host == "api.github.com" && req.URL.Path == "/user/orgs":
		if g.orgsDown {
			return resp(503, `{"message": "service unavailable"}`)
		}
		tok := strings.TrimPrefix(req.Header.Get("Authorization"), "token ")
		if g.inOrg[tok] {
			return resp(200, `[{"login": "theorg"}]`)
		}
		return resp(200, `[{"login": "someoneelse"}]`)
	}
	return nil, fmt.Errorf("stub github: unexpected request %v", req.URL)
}

// ---- servers ------------------------------------------------------------------

type webSrv struct {
	ts        *httptest.Server
	permalink string
}

type env struct {
	dir     string
	db      *zenodb.DB // standalone: web and rpc query
	leader  *zenodb.DB // passthrough leader: follow and handler registration
	gh      *github
	sc      *securecookie.SecureCookie
	forger  *securecookie.SecureCookie
	web     map[[2]bool]*webSrv // (oauth, webPw)
	rpcAddr map[[2]bool]string  // (leader?, rpcPw)
	client  *http.Client
}

func must(err error) {
	if err != nil {
		fmt.Fprintln(os.Stderr, "zvaccess:", err)
		os.Exit(3)
	}
}

func openDB(dir string, leader bool) *zenodb.DB {
	o := &zenodb.DBOpts{Dir: dir, VirtualTime: true, IterationCoalesceInterval: time.Millisecond,
		ClusterQueryTimeout: 300 * time.Millisecond, ClusterQueryConcurrency: 10, Panic: func(e interface{}) {}}
	if leader {
		o.Passthrough = true
		o.NumPartitions = 1
		o.ID = 1
	}
	db, err := zenodb.NewDB(o)
	must(err)
	must(db.ApplySchema(zenodb.Schema{"t": &zenodb.TableOpts{RetentionPeriod: 100 * time.Second,
		SQL: "SELECT SUM(w) AS f FROM s GROUP BY a, period(1s)"}}))
	return db
}

func setup(dir string) *env {
	e := &env{dir: dir, gh: &github{inOrg: map[string]bool{}}, web: map[[2]bool]*webSrv{}, rpcAddr: map[[2]bool]string{}}
	http.DefaultTransport = e.gh // web.handler uses &http.Client{}
	e.client = &http.Client{Transport: &http.Transport{}, CheckRedirect: func(*http.Request, []*http.Request) error { return http.ErrUseLastResponse }}
	e.sc = securecookie.New([]byte(hashKey), []byte(blockKey))
	e.forger = securecookie.New([]byte(strings.Repeat("f", 64)), []byte(strings.Repeat("g", 32)))
	e.db = openDB(filepath.Join(dir, "solo"), false)
	e.leader = openDB(filepath.Join(dir, "leader"), true)
	ts := time.Date(2020, 1, 1, 0, 0, 5, 0, time.UTC)
	for i := 0; i < 3; i++ {
		for _, db := range []*zenodb.DB{e.db, e.leader} {
			must(db.Insert("s", ts.Add(time.Duration(i)*time.Second), map[string]interface{}{"a": fmt.Sprint("k", i)}, map[string]interface{}{"w": float64(i + 1)}))
		}
	}
	// wait until the standalone database answers with rows
	deadline := time.Now().Add(10 * time.Second)
	for {
		n := 0
		src, err := e.db.Query(sqlText, false, nil, true)
		must(err)
		src.Iterate(context.Background(), func(core.Fields) error { return nil }, func(*core.FlatRow) (bool, error) { n++; return true, nil })
		if n >= 3 {
			break
		}
		if time.Now().After(deadline) {
			must(fmt.Errorf("the standalone database did not ingest the points"))
		}
		time.Sleep(10 * time.Millisecond)
	}
	e.db.FlushAll() // the web API queries flushed data only
	for _, oauth := range []bool{false, true} {
		for _, pw := range []bool{false, true} {
			o := &web.Opts{CacheDir: filepath.Join(dir, fmt.Sprintf("cache-%v-%v", oauth, pw)), HashKey: hashKey, BlockKey: blockKey,
				QueryTimeout: 5 * time.Second}
			if oauth {
				o.OAuthClientID, o.OAuthClientSecret, o.GitHubOrg = "clientid", "clientsecret", "theorg"
			}
			if pw {
				o.Password = webPassword
			}
			router := mux.NewRouter()
			_, err := web.Configure(e.db, router, o)
			must(err)
			e.web[[2]bool{oauth, pw}] = &webSrv{ts: httptest.NewServer(router)}
		}
	}
	for _, ld := range []bool{false, true} {
		for _, pw := range []bool{false, true} {
			l, err := net.Listen("tcp", "127.0.0.1:0")
			must(err)
			db := e.db
			if ld {
				db = e.leader
			}
			o := &rpcserver.Opts{ID: 1}
			if pw {
				o.Password = rpcPassword
			}
			serve, _ := rpcserver.PrepareServer(db, l, o)
			go serve()
			e.rpcAddr[[2]bool{ld, pw}] = l.Addr().String()
		}
	}
	return e
}

// ---- web ------------------------------------------------------------------------

type session struct {
	ad web.AuthData
}

func (e *env) get(w *webSrv, path string, hdr string, cookie string) (int, http.Header, []byte, error) {
	req, _ := http.NewRequest("GET", w.ts.URL+path, nil)
	if hdr != "" {
		req.Header.Set("X-Zeno-Auth-Token", hdr)
	}
	if cookie != "" {
		req.AddCookie(&http.Cookie{Name: "authcookie", Value: cookie})
	}
	resp, err := e.client.Do(req)
	if err != nil {
		return 0, nil, nil, err
	}
	defer resp.Body.Close()
	b, _ := ioutil.ReadAll(resp.Body)
	return resp.StatusCode, resp.Header, b, nil
}

// rowsIn reports how many rows a 200 body of the query endpoints carries.
func rowsIn(h http.Header, body []byte) int {
	var r io.Reader = bytes.NewReader(body)
	if gz, err := gzip.NewReader(bytes.NewReader(body)); err == nil {
		r = gz
	}
	var qr struct{ Rows []json.RawMessage }
	if json.NewDecoder(r).Decode(&qr) != nil {
		return -1
	}
	return len(qr.Rows)
}

// warm makes sure the query is in the cache of w (so that /run and /async do
// not wait for the 5 s coalescing window) and that a permalink exists.
func (e *env) warm(w *webSrv, authHdr string, authCookie string) error {
	if w.permalink != "" {
		return nil
	}
	code, h, body, err := e.get(w, "/immediate?"+url.QueryEscape(sqlText), authHdr, authCookie)
	if err != nil || code != 200 {
		return fmt.Errorf("warm-up query: status %d err %v body %s", code, err, body)
	}
	var r io.Reader = bytes.NewReader(body)
	if gz, err := gzip.NewReader(bytes.NewReader(body)); err == nil {
		r = gz
	}
	var qr struct {
		Permalink string
		Rows      []json.RawMessage
	}
	if err := json.NewDecoder(r).Decode(&qr); err != nil || qr.Permalink == "" || len(qr.Rows) == 0 {
		return fmt.Errorf("warm-up query: no permalink / rows (%v) in %v", err, h)
	}
	w.permalink = qr.Permalink
	return nil
}

func (e *env) runBatch(b *Batch, out *json.Encoder) {
	w := e.web[[2]bool{b.Cfg.Oauth, b.Cfg.WebPw}]
	res := map[string]interface{}{"id": b.ID}
	var notes []string
	// the environment of this batch starts like the specification's Init
	e.gh.mx.Lock()
	e.gh.inOrg = map[string]bool{"member": true}
	e.gh.orgsDown = false
	e.gh.mx.Unlock()
	tick := time.Hour / time.Duration(b.SLen)
	now := 0
	sessions := map[[2]interface{}]*web.AuthData{} // (tok, exp tick) -> issued session
	var logins []map[string]interface{}
	for _, st := range b.Hist {
		switch st.A {
		case "Tick":
			now++
		case "Revoke":
			e.gh.mx.Lock()
			delete(e.gh.inOrg, st.Tok)
			e.gh.mx.Unlock()
		case "Github":
			e.gh.mx.Lock()
			e.gh.orgsDown = st.State == "orgs_down"
			e.gh.mx.Unlock()
		case "Login":
			if lg := e.login(w, st, now, b.SLen, sessions, &notes); lg != nil {
				logins = append(logins, lg)
			}
		}
	}
	res["logins"] = logins
	// credentials good enough to warm the cache of this server
	authHdr, authCookie := "", ""
	if b.Cfg.Oauth {
		if b.Cfg.WebPw {
			authHdr = webPassword
		} else {
			authCookie, _ = e.sc.Encode("authcookie", &web.AuthData{AccessToken: "member", Expiration: time.Now().Add(time.Hour)})
			// a live session is re-verified by the shipped code: keep the stub's answer
			// positive during the warm-up only
			e.gh.mx.Lock()
			saved, savedDown := e.gh.inOrg["member"], e.gh.orgsDown
			e.gh.inOrg["member"], e.gh.orgsDown = true, false
			e.gh.mx.Unlock()
			defer func() {}()
			err := e.warm(w, authHdr, authCookie)
			e.gh.mx.Lock()
			if !saved {
				delete(e.gh.inOrg, "member")
			}
			e.gh.orgsDown = savedDown
			e.gh.mx.Unlock()
			if err != nil {
				notes = append(notes, err.Error())
			}
		}
	}
	if w.permalink == "" {
		if err := e.warm(w, authHdr, authCookie); err != nil {
			notes = append(notes, err.Error())
		}
	}
	var hres []map[string]interface{}
	for _, r := range b.Http {
		hdr := map[string]string{"none": "", "wrong": "not-the-token", "right": webPassword}[r.Hdr]
		cookie := ""
		switch r.Ck.Kind {
		case "forged":
			cookie, _ = e.forger.Encode("authcookie", &web.AuthData{AccessToken: "member", Expiration: time.Now().Add(time.Hour)})
		case "session":
			ad := sessions[[2]interface{}{r.Ck.Tok, r.Ck.Exp}]
			if ad == nil {
				// the real login did not issue the session the model has: nothing to present
				hres = append(hres, map[string]interface{}{"ep": r.Ep, "hdr": r.Hdr, "ck": r.Ck, "must": r.Must, "decide": r.Decide, "skipped": "no such session was issued"})
				continue
			}
			// the clock of the specification has advanced by `now' ticks since Init and the
			// session was issued at tick exp - SLen: present it as it will look then
			issuedAt := r.Ck.Exp - b.SLen
			shifted := &web.AuthData{AccessToken: ad.AccessToken, Expiration: ad.Expiration.Add(-time.Duration(now-issuedAt) * tick)}
			cookie, _ = e.sc.Encode("authcookie", shifted)
		}
		path := "/" + r.Ep + "?" + url.QueryEscape(sqlText)
		if r.Ep == "cached" {
			path = "/cached/" + w.permalink
		}
		code, h, body, err := e.get(w, path, hdr, cookie)
		o := map[string]interface{}{"ep": r.Ep, "hdr": r.Hdr, "ck": r.Ck, "must": r.Must, "decide": r.Decide, "status": code}
		if err != nil {
			o["err"] = err.Error()
		}
		switch code {
		case 200:
			o["rows"] = rowsIn(h, body)
			o["observed"] = "serve"
		case 202:
			o["observed"] = "serve"
		case 403, 307, 401:
			o["observed"] = "refuse"
			if n := rowsIn(h, body); n > 0 {
				o["rows"] = n
				o["observed"] = "serve"
			}
		default:
			o["observed"] = "other"
			o["body"] = string(body[:min(len(body), 200)])
		}
		// a request that is refused must not be handed a session either: whatever
		// cookie the refusal sets is presented with the same request once more
		if o["observed"] == "refuse" {
			for _, c := range (&http.Response{Header: h}).Cookies() {
				if c.Name == "authcookie" && c.Value != "" {
					code2, h2, body2, _ := e.get(w, path, "", c.Value)
					o["renewed"] = code2
					if code2 == 200 || code2 == 202 {
						o["observed"] = "serve"
						o["status"] = code2
						o["viaRenewedCookie"] = true
						if code2 == 200 {
							o["rows"] = rowsIn(h2, body2)
						}
					}
				}
			}
		}
		hres = append(hres, o)
	}
	res["http"] = hres
	// login attempts in this state, after everything else (they may add sessions)
	var attempts []map[string]interface{}
	for _, st := range b.Logins {
		if lg := e.login(w, st, now, b.SLen, map[[2]interface{}]*web.AuthData{}, &notes); lg != nil {
			attempts = append(attempts, lg)
		}
	}
	res["attempts"] = attempts
	if len(notes) > 0 {
		res["notes"] = notes
	}
	out.Encode(res)
}

// login performs the OAuth code flow for the user with access token st.Tok.
func (e *env) login(w *webSrv, st Step, now, slen int, sessions map[[2]interface{}]*web.AuthData, notes *[]string) map[string]interface{} {
	// an unauthenticated request is redirected to GitHub with a state parameter
	code, h, _, err := e.get(w, "/immediate?"+url.QueryEscape(sqlText), "", "")
	if err != nil || code != http.StatusTemporaryRedirect {
		*notes = append(*notes, fmt.Sprintf("login: expected a redirect, got %d %v", code, err))
		return nil
	}
	loc, _ := url.Parse(h.Get("Location"))
	state := loc.Query().Get("state")
	if st.State == "forged" {
		state, _ = e.forger.Encode("xsrftoken", time.Now().Add(time.Minute))
	}
	code, h, _, err = e.get(w, "/oauth/code?code="+url.QueryEscape(st.Tok)+"&state="+url.QueryEscape(state), "", "")
	issued := false
	for _, c := range (&http.Response{Header: h}).Cookies() {
		if c.Name == "authcookie" {
			ad := &web.AuthData{}
			if err := e.sc.Decode("authcookie", c.Value, ad); err != nil {
				*notes = append(*notes, "login: issued cookie does not decode: "+err.Error())
				continue
			}
			issued = true
			sessions[[2]interface{}{st.Tok, now + slen}] = ad
		}
	}
	return map[string]interface{}{"tok": st.Tok, "state": st.State, "issued": issued, "status": code,
		"modelIssued": st.Issued, "mustIssue": st.MustIssue}
}

func min(a, b int) int {
	if a < b {
		return a
	}
	return b
}

// ---- rpc --------------------------------------------------------------------------

func (e *env) dial(leader, serverPw bool, cred string) (rpc.Client, error) {
	pw := map[string]string{"none": "", "wrong": "guess", "right": rpcPassword}[cred]
	return rpc.Dial(e.rpcAddr[[2]bool{leader, serverPw}], &rpc.ClientOpts{Password: pw})
}

func (e *env) rpcOne(serverPw bool, r RpcReq) map[string]interface{} {
	o := map[string]interface{}{"ep": r.Ep, "pw": r.Pw, "must": r.Must, "decide": r.Decide}
	switch r.Ep {
	case "query":
		c, err := e.dial(false, serverPw, r.Pw)
		if err != nil {
			o["err"] = err.Error()
			o["observed"] = "other"
			return o
		}
		defer c.Close()
		ctx, cancel := context.WithTimeout(context.Background(), 5*time.Second)
		defer cancel()
		rows := 0
		md, iterate, err := c.Query(ctx, sqlText, true)
		if err == nil {
			_, err = iterate(func(row *core.FlatRow) (bool, error) { rows++; return true, nil })
		}
		o["rows"] = rows
		if err != nil {
			o["err"] = err.Error()
		}
		if rows > 0 || (err == nil && md != nil) {
			o["observed"] = "serve"
		} else {
			o["observed"] = "refuse"
		}
	case "follow":
		c, err := e.dial(true, serverPw, r.Pw)
		if err != nil {
			o["err"] = err.Error()
			o["observed"] = "other"
			return o
		}
		defer c.Close()
		ctx, cancel := context.WithTimeout(context.Background(), 5*time.Second)
		defer cancel()
		f := &common.Follow{FollowerID: common.FollowerID{Partition: 0, ID: 70 + len(r.Pw)}, Stream: "s",
			Partitions: map[string]*common.Partition{"": {Tables: []*common.PartitionTable{{Name: "t"}}}}}
		_, next, err := c.Follow(ctx, f)
		points := 0
		if err == nil {
			got := make(chan error, 1)
			go func() {
				_, _, err := next()
				got <- err
			}()
			select {
			case err = <-got:
				if err == nil {
					points++
				}
			case <-time.After(3 * time.Second):
				err = fmt.Errorf("no point within 3s")
			}
		}
		o["points"] = points
		if err != nil {
			o["err"] = err.Error()
		}
		if points > 0 {
			o["observed"] = "serve"
		} else {
			o["observed"] = "refuse"
		}
	case "register":
		c, err := e.dial(true, serverPw, r.Pw)
		if err != nil {
			o["err"] = err.Error()
			o["observed"] = "other"
			return o
		}
		defer c.Close()
		got := make(chan string, 1)
		done := make(chan error, 1)
		ctx, cancel := context.WithCancel(context.Background())
		defer cancel()
		go func() {
			done <- c.ProcessRemoteQuery(ctx, 0, func(ctx context.Context, sqlString string, isSubQuery bool, subQueryResults [][]interface{}, unflat bool,
				onFields core.OnFields, onRow core.OnRow, onFlatRow core.OnFlatRow) (interface{}, error) {
				select {
				case got <- sqlString:
				default:
				}
				// a rogue handler can also answer with rows of its own
				onFields(core.Fields{})
				return nil, nil
			}, 3*time.Second)
		}()
		// somebody queries the leader: does the rogue handler get the query text?
		leaked := ""
		var regErr error
		deadline := time.Now().Add(3 * time.Second)
	loop:
		for time.Now().Before(deadline) {
			src, err := e.leader.Query(canarySQL, false, nil, true)
			if err == nil {
				qctx, qcancel := context.WithTimeout(context.Background(), 400*time.Millisecond)
				src.Iterate(qctx, func(core.Fields) error { return nil }, func(*core.FlatRow) (bool, error) { return true, nil })
				qcancel()
			}
			select {
			case leaked = <-got:
				break loop
			case regErr = <-done:
				// the registration call has ended; one more query shows whether a handler stayed behind
				src, err := e.leader.Query(canarySQL, false, nil, true)
				if err == nil {
					qctx, qcancel := context.WithTimeout(context.Background(), 400*time.Millisecond)
					src.Iterate(qctx, func(core.Fields) error { return nil }, func(*core.FlatRow) (bool, error) { return true, nil })
					qcancel()
				}
				select {
				case leaked = <-got:
				default:
				}
				break loop
			case <-time.After(20 * time.Millisecond):
			}
		}
		if regErr != nil {
			o["err"] = regErr.Error()
		}
		if leaked != "" {
			o["leaked"] = leaked
			o["observed"] = "serve"
		} else {
			o["observed"] = "refuse"
		}
	}
	return o
}

func main() {
	scratch := flag.String("scratch", "", "scratch directory")
	flag.Parse()
	if *scratch == "" {
		must(fmt.Errorf("-scratch required"))
	}
	os.Setenv("TMPDIR", *scratch)
	must(os.MkdirAll(*scratch, 0755))
	e := setup(*scratch)
	out := json.NewEncoder(os.Stdout)
	in := bufio.NewReaderSize(os.Stdin, 1<<20)
	rpcDone := map[bool]bool{}
	for {
		line, err := in.ReadBytes('\n')
		if len(bytes.TrimSpace(line)) > 0 {
			b := &Batch{}
			if jerr := json.Unmarshal(line, b); jerr != nil {
				must(fmt.Errorf("bad batch: %v", jerr))
			}
			e.runBatch(b, out)
			if len(b.Rpc) > 0 && !rpcDone[b.Cfg.RpcPw] {
				rpcDone[b.Cfg.RpcPw] = true
				var rres []map[string]interface{}
				for _, r := range b.Rpc {
					rres = append(rres, e.rpcOne(b.Cfg.RpcPw, r))
				}
				out.Encode(map[string]interface{}{"id": b.ID, "rpc": rres, "rpcPw": b.Cfg.RpcPw})
			}
		}
		if err != nil {
			break
		}
	}
	_ = bytemap.ByteMap(nil)
	os.Exit(0)
}
