// zvwire runs queries once embedded, once through the rpc client against an rpc
// server, and once through a leader whose partitions are answered by follower
// databases over rpc (spec/Wire.tla, C20; with injected follower failures also
// the rpc part of C13).  Points enter through the rpc insert stream; followers
// follow the leader through the rpc follow stream and serve its queries with
// rpc.Client.ProcessRemoteQuery, like server.Server wires them.  Every message
// of a remote query is logged on both sides of the transport.
package main

import (
	"bufio"
	"context"
	"encoding/json"
	"flag"
	"fmt"
	"io/ioutil"
	"net"
	"os"
	"path/filepath"
	"sort"
	"sync"
	"sync/atomic"
	"time"

	"github.com/getlantern/bytemap"
	"github.com/getlantern/golog"
	"github.com/getlantern/wal"
	"github.com/getlantern/zenodb"
	"github.com/getlantern/zenodb/common"
	"github.com/getlantern/zenodb/core"
	"github.com/getlantern/zenodb/planner"
	"github.com/getlantern/zenodb/rpc"
	rpcserver "github.com/getlantern/zenodb/rpc/server"

	"zverif/zv"
)

type Point struct {
	TS   int                        `json:"ts"`
	Dims map[string]json.RawMessage `json:"dims"`
	Vals map[string]json.RawMessage `json:"vals"`
}

type Query struct {
	ID    string `json:"id"`
	SQL   string `json:"sql"`
	Fault string `json:"fault"` // "", "err": partition FaultPart fails after After rows
	Part  int    `json:"part"`
	After int    `json:"after"`
}

type Scenario struct {
	Scn        string        `json:"scn"`
	Tables     []zv.TableDef `json:"tables"`
	Partitions int           `json:"partitions"`
	Points     []Point       `json:"points"`
	Queries    []Query       `json:"queries"`
	// Drops: [after how many points, partition]: the follower's follow stream is dropped
	// (its connection context is cancelled) and re-established, like server.followSource
	// does after an error, with the offset of the last entry it received
	Drops [][2]int `json:"drops"`
}

var wireCtl *zv.Ctl

var (
	out   *bufio.Writer
	omx   sync.Mutex
	evseq int64
)

func emit(line map[string]interface{}) {
	b, _ := json.Marshal(line)
	omx.Lock()
	out.Write(append(b, '\n'))
	omx.Unlock()
}

// event logs one message of a remote query (one global sequence: all nodes live
// in this process).
func event(q int64, part int, side, kind, digest string) {
	emit(map[string]interface{}{"a": "Msg", "seq": atomic.AddInt64(&evseq, 1), "q": q, "part": part, "side": side, "kind": kind, "d": digest})
}

// queryEvent logs the query message: its text (d) and everything else it carries (m)
func queryEvent(q int64, part int, side string, ctx context.Context, sqlString string, isSubQuery bool, subQueryResults [][]interface{}, unflat bool) {
	dl, has := ctx.Deadline()
	m := fmt.Sprintf("sub=%t|unflat=%t|mem=%t|deadline=%t", isSubQuery, unflat, common.ShouldIncludeMemStore(ctx), has)
	if has {
		m += fmt.Sprintf("@%d", dl.UnixNano()/1000000)
	}
	m += fmt.Sprintf("|subres=%d", len(subQueryResults))
	for _, r := range subQueryResults {
		m += fmt.Sprintf(";%v", r)
	}
	emit(map[string]interface{}{"a": "Msg", "seq": atomic.AddInt64(&evseq, 1), "q": q, "part": part, "side": side, "kind": "query", "d": sqlString, "m": m})
}

func digestFlat(r *core.FlatRow) string {
	return fmt.Sprintf("%x|%d|%v", []byte(r.Key), r.TS, r.Values)
}

func digestRow(key bytemap.ByteMap, vals core.Vals) string {
	s := fmt.Sprintf("%x", []byte(key))
	for _, v := range vals {
		s += fmt.Sprintf("|%x", []byte(v))
	}
	return s
}

func digestFields(f core.Fields) string {
	s := ""
	for _, x := range f {
		s += x.Name + "=" + x.Expr.String() + ";"
	}
	return s
}

// leaderDB lets the rpc server register its handlers with the real leader, with
// the callbacks of every remote query wrapped for logging.
type leaderDB struct {
	*zenodb.DB
	registered int64
}

var qseq int64

func (l *leaderDB) RegisterQueryHandler(partition int, query planner.QueryClusterFN) {
	wrapped := func(ctx context.Context, sqlString string, isSubQuery bool, subQueryResults [][]interface{}, unflat bool,
		onFields core.OnFields, onRow core.OnRow, onFlatRow core.OnFlatRow) (interface{}, error) {
		q := atomic.AddInt64(&qseq, 1)
		queryEvent(q, partition, "leader", ctx, sqlString, isSubQuery, subQueryResults, unflat)
		of := func(f core.Fields) error { event(q, partition, "leader", "fields", digestFields(f)); return onFields(f) }
		var or core.OnRow
		var ofr core.OnFlatRow
		if onRow != nil {
			or = func(key bytemap.ByteMap, vals core.Vals) (bool, error) {
				event(q, partition, "leader", "row", digestRow(key, vals))
				more, err := onRow(key, vals)
				if !more || err != nil {
					event(q, partition, "leader", "stop", "")
				}
				return more, err
			}
		}
		if onFlatRow != nil {
			ofr = func(r *core.FlatRow) (bool, error) {
				event(q, partition, "leader", "row", digestFlat(r))
				more, err := onFlatRow(r)
				if !more || err != nil {
					event(q, partition, "leader", "stop", "")
				}
				return more, err
			}
		}
		stats, err := query(ctx, sqlString, isSubQuery, subQueryResults, unflat, of, or, ofr)
		e := ""
		if err != nil {
			e = "error"
		}
		event(q, partition, "leader", "end", e)
		return stats, err
	}
	l.DB.RegisterQueryHandler(partition, wrapped)
	atomic.AddInt64(&l.registered, 1)
}

type follower struct {
	dropMx  sync.Mutex
	drop    context.CancelFunc // ends the current follow stream
	drops   int
	part    int
	db      *zenodb.DB
	queryFn planner.QueryClusterFN
	mx      sync.Mutex
	fault   Query
}

func schemaOf(tables []zv.TableDef) zenodb.Schema {
	s := zenodb.Schema{}
	for _, t := range tables {
		s[t.Name] = &zenodb.TableOpts{RetentionPeriod: time.Duration(t.RetTicks) * time.Second, SQL: t.SQL,
			PartitionBy: append([]string(nil), t.Partition...), MinFlushLatency: 24 * time.Hour}
	}
	return s
}

func serve(db rpcserver.DB, id int) (string, func(), error) {
	l, err := net.Listen("tcp", "127.0.0.1:0")
	if err != nil {
		return "", nil, err
	}
	start, stop := rpcserver.PrepareServer(db, l, &rpcserver.Opts{ID: id, Password: "pw"})
	go start()
	return l.Addr().String(), stop, nil
}

func rows(n *zv.Node, sql string) ([]zv.RawRow, interface{}, error) {
	return n.RawQueryOpts(sql, true, zv.QueryOpts{StallAtRow: -1})
}

func run(sc *Scenario, scratch string) {
	emit(map[string]interface{}{"a": "Reset", "scn": sc.Scn})
	wireCtl.Locked(func() {
		wireCtl.OnLeaderJoin = func(leader string, f common.FollowerID, table string, off, earliest [2]int64) {
			emit(map[string]interface{}{"a": "Ev", "e": "join", "f": fmt.Sprintf("f%d", f.Partition), "t": table, "off": off, "earliest": earliest})
		}
		wireCtl.OnLeaderEntry = func(leader string, off [2]int64, data []byte, included []common.FollowerID) {
			var inc []string
			for _, fid := range included {
				inc = append(inc, fmt.Sprintf("f%d", fid.Partition))
			}
			emit(map[string]interface{}{"a": "Ev", "e": "entry", "off": off, "incl": inc})
		}
		wireCtl.ResetScenario()
		wireCtl.Gated = false
		wireCtl.FollowTables = len(sc.Tables)
	})
	base := filepath.Join(scratch, sc.Scn)
	os.RemoveAll(base)
	defer os.RemoveAll(base)
	fail := func(err error) { emit(map[string]interface{}{"a": "HarnessError", "scn": sc.Scn, "err": err.Error()}) }
	opts := &zv.Opts{TickMs: 1000, Stream: "s"}
	// the standalone database and its rpc server
	solo, err := zv.OpenNode(filepath.Join(base, "solo"), opts, sc.Tables)
	if err != nil {
		fail(err)
		return
	}
	defer solo.CloseTimeout(3 * time.Second)
	soloAddr, stopSolo, err := serve(solo.DB, 9)
	if err != nil {
		fail(err)
		return
	}
	defer stopSolo()
	// the leader
	ldb, err := zenodb.NewDB(&zenodb.DBOpts{Dir: filepath.Join(base, "leader"), VirtualTime: true, Passthrough: true, ID: 1,
		NumPartitions: sc.Partitions, ClusterQueryConcurrency: 20, ClusterQueryTimeout: 10 * time.Second, Panic: func(interface{}) {}})
	if err != nil {
		fail(err)
		return
	}
	defer func() {
		done := make(chan struct{})
		go func() { ldb.Close(); close(done) }()
		select {
		case <-done:
		case <-time.After(3 * time.Second):
		}
	}()
	if err := ldb.ApplySchema(schemaOf(sc.Tables)); err != nil {
		fail(err)
		return
	}
	leader := &leaderDB{DB: ldb}
	leaderAddr, stopLeader, err := serve(leader, 1)
	if err != nil {
		fail(err)
		return
	}
	defer stopLeader()
	ctx, cancel := context.WithCancel(context.Background())
	defer cancel()
	// followers: follow and answer over rpc
	var fols []*follower
	for p := 0; p < sc.Partitions; p++ {
		f := &follower{part: p}
		fols = append(fols, f)
		followClient, err := rpc.Dial(leaderAddr, &rpc.ClientOpts{Password: "pw"})
		if err != nil {
			fail(err)
			return
		}
		defer followClient.Close()
		o := &zenodb.DBOpts{Dir: filepath.Join(base, fmt.Sprintf("follower%d", p)), VirtualTime: true, ID: 10 + p, Partition: p,
			NumPartitions: sc.Partitions, IterationCoalesceInterval: time.Millisecond, Panic: func(interface{}) {}}
		var followMx sync.Mutex
		var stopFollow context.CancelFunc
		var followDone chan struct{}
		o.Follow = func(mk func(sources []int) map[int]*common.Follow, insert func(data []byte, newOffset wal.Offset, source int) error) {
			// the database asks again when further tables subscribe (the start-up timers are
			// shortened here): one stream at a time, the previous one ends first - two streams
			// with different progress would overtake each other in the follower's offsets
			followMx.Lock()
			defer followMx.Unlock()
			if stopFollow != nil {
				stopFollow()
				<-followDone
			}
			fctx, cancelF := context.WithCancel(ctx)
			stopFollow, followDone = cancelF, make(chan struct{})
			done := followDone
			fo := mk([]int{1})[1]
			go func() {
				defer close(done)
				ctx := fctx
				for ctx.Err() == nil {
					cctx, ccancel := context.WithCancel(ctx)
					f.dropMx.Lock()
					f.drop = ccancel
					f.dropMx.Unlock()
					{
						tabs := map[string][2]int64{}
						for _, part := range fo.Partitions {
							for _, pt := range part.Tables {
								tabs[pt.Name] = zenodb.VerifOffset(pt.Offsets[1])
							}
						}
						emit(map[string]interface{}{"a": "Ev", "e": "connect", "f": fmt.Sprintf("f%d", f.part), "tabs": tabs, "earliest": zenodb.VerifOffset(fo.EarliestOffset)})
					}
					source, next, err := followClient.Follow(cctx, fo)
					if err != nil {
						ccancel()
						time.Sleep(20 * time.Millisecond)
						continue
					}
					for {
						data, off, err := next()
						if err != nil {
							break
						}
						if err := insert(data, off, source); err != nil {
							emit(map[string]interface{}{"a": "Ev", "e": "inserterr", "f": fmt.Sprintf("f%d", f.part), "off": zenodb.VerifOffset(off), "err": err.Error()})
							break
						}
						emit(map[string]interface{}{"a": "Ev", "e": "deliver", "f": fmt.Sprintf("f%d", f.part), "off": zenodb.VerifOffset(off)})
						fo.EarliestOffset = off
					}
					ccancel()
					// server.followSource waits at least a second before it follows again; a
					// request that overtakes its predecessor's registration with the leader
					// would leave the leader talking to the dead stream (see DESIGN.md, section 8)
					select {
					case <-ctx.Done():
					case <-time.After(time.Second):
					}
				}
			}()
		}
		o.RegisterRemoteQueryHandler = func(db *zenodb.DB, partition int, query planner.QueryClusterFN) {
			f.mx.Lock()
			f.queryFn = query
			f.mx.Unlock()
		}
		fdb, err := zenodb.NewDB(o)
		if err != nil {
			fail(err)
			return
		}
		f.db = fdb
		defer func() {
			done := make(chan struct{})
			go func() { fdb.Close(); close(done) }()
			select {
			case <-done:
			case <-time.After(3 * time.Second):
			}
		}()
		if err := fdb.ApplySchema(schemaOf(sc.Tables)); err != nil {
			fail(err)
			return
		}
		// serve the leader's queries: two handlers per partition are kept registered
		for j := 0; j < 2; j++ {
			qc, err := rpc.Dial(leaderAddr, &rpc.ClientOpts{Password: "pw"})
			if err != nil {
				fail(err)
				return
			}
			defer qc.Close()
			go func(f *follower) {
				for ctx.Err() == nil {
					qc.ProcessRemoteQuery(ctx, f.part, f.answer, 2*time.Second)
				}
			}(f)
		}
	}
	// points enter through the rpc insert stream
	insertAll := func(addr string, withDrops bool) error {
		c, err := rpc.Dial(addr, &rpc.ClientOpts{Password: "pw"})
		if err != nil {
			return err
		}
		defer c.Close()
		ins, err := c.NewInserter(ctx, "inbound")
		if err != nil {
			return err
		}
		for pi, p := range sc.Points {
			if withDrops {
				for _, d := range sc.Drops {
					if d[0] == pi && d[1] < len(fols) {
						fl := fols[d[1]]
						fl.dropMx.Lock()
						if fl.drop != nil {
							fl.drop()
							fl.drops++
							emit(map[string]interface{}{"a": "Ev", "e": "drop", "f": fmt.Sprintf("f%d", fl.part), "afterPoint": pi})
						}
						fl.dropMx.Unlock()
						// let some of the entries inserted so far be in flight when the next ones arrive
						time.Sleep(time.Duration(d[0]%3) * 5 * time.Millisecond)
					}
				}
			}
			dims, err := zv.ValueMap(p.Dims, time.Second)
			if err != nil {
				return err
			}
			vals, err := zv.ValueMap(p.Vals, time.Second)
			if err != nil {
				return err
			}
			if err := ins.Insert(zv.Epoch.Add(time.Duration(p.TS)*time.Second), dims, func(cb func(string, interface{})) {
				for k, v := range vals {
					cb(k, v)
				}
			}); err != nil {
				return err
			}
		}
		rep, err := ins.Close()
		if err != nil {
			return err
		}
		if rep.Succeeded != len(sc.Points) {
			return fmt.Errorf("insert report: %+v", rep)
		}
		return nil
	}
	if err := insertAll(soloAddr, false); err != nil {
		fail(fmt.Errorf("insert into the standalone server: %v", err))
		return
	}
	if err := insertAll(leaderAddr, true); err != nil {
		fail(fmt.Errorf("insert into the leader: %v", err))
		return
	}
	// all nodes share the newest timestamp as their (virtual) clock
	newest := 0
	for _, p := range sc.Points {
		if p.TS > newest {
			newest = p.TS
		}
	}
	clock := zv.Epoch.Add(time.Duration(newest) * time.Second)
	advance := func() {
		solo.DB.VerifAdvanceClock(clock)
		ldb.VerifAdvanceClock(clock)
		for _, f := range fols {
			f.db.VerifAdvanceClock(clock)
		}
	}
	advance()
	// wait until the standalone database and the partitions together hold every point
	count := func(db *zenodb.DB, table string) float64 {
		n := &zv.Node{DB: db, Opts: opts}
		rs, err := n.RawQuery("SELECT _points FROM "+table+" GROUP BY period(100000s)", true, 5*time.Second)
		if err != nil {
			return -1
		}
		t := 0.0
		for _, r := range rs {
			t += r.Vals["_points"]
		}
		return t
	}
	// the standalone database has caught up when every table has decided on every point
	// and applied what it accepted (hook counters); the partitions have caught up when
	// together they hold as many points as it does
	if err := wireCtl.WaitCond(40*time.Second, "the standalone database to catch up", func() bool {
		for _, t := range sc.Tables {
			if wireCtl.Verdicts[t.Name] < len(sc.Points) || wireCtl.Applies[t.Name] < wireCtl.Offers[t.Name] {
				return false
			}
		}
		return true
	}); err != nil {
		fail(err)
		return
	}
	deadline := time.Now().Add(30 * time.Second)
	caughtUp := true
	for _, t := range sc.Tables {
		for {
			advance()
			want := count(solo.DB, t.Name)
			got := 0.0
			for _, f := range fols {
				got += count(f.db, t.Name)
			}
			if got == want && atomic.LoadInt64(&leader.registered) >= int64(sc.Partitions) {
				break
			}
			if time.Now().After(deadline) {
				caughtUp = false
				emit(map[string]interface{}{"a": "NotCaughtUp", "t": t.Name, "partitions": got, "standalone": want})
				break
			}
			time.Sleep(20 * time.Millisecond)
		}
	}
	// what every node holds (decoded cells), for the comparison partitions together = standalone
	views := func(n *zv.Node, name string) {
		for _, t := range sc.Tables {
			rows, _, err := n.Probe("SELECT * FROM "+t.Name, true, 10*time.Second)
			line := map[string]interface{}{"a": "WireView", "node": name, "t": t.Name, "rows": rows}
			if rows == nil {
				line["rows"] = []zv.Row{}
			}
			if err != nil {
				line["err"] = err.Error()
			}
			emit(line)
		}
	}
	views(solo, "standalone")
	for _, f := range fols {
		f.dropMx.Lock()
		d := f.drops
		f.dropMx.Unlock()
		views(&zv.Node{DB: f.db, Opts: opts, Tables: sc.Tables}, fmt.Sprintf("f%d", f.part))
		emit(map[string]interface{}{"a": "WireDrops", "node": fmt.Sprintf("f%d", f.part), "drops": d})
	}
	if !caughtUp {
		return
	}
	soloClient, err := rpc.Dial(soloAddr, &rpc.ClientOpts{Password: "pw"})
	if err != nil {
		fail(err)
		return
	}
	defer soloClient.Close()
	lnode := &zv.Node{DB: ldb, Opts: opts}
	for qi, q := range sc.Queries {
		for _, f := range fols {
			f.mx.Lock()
			f.fault = Query{}
			if q.Fault != "" && q.Part == f.part {
				f.fault = q
			}
			f.mx.Unlock()
		}
		line := map[string]interface{}{"a": "WireQuery", "id": q.ID, "sql": q.SQL, "fault": q.Fault, "part": q.Part, "after": q.After}
		emb, _, err := rows(solo, q.SQL)
		line["embedded"] = orEmpty(emb)
		if err != nil {
			line["embeddedErr"] = err.Error()
		}
		// the same query through the rpc client
		var viaRPC []zv.RawRow
		qctx, qcancel := context.WithTimeout(ctx, 20*time.Second)
		md, iterate, err := soloClient.Query(qctx, q.SQL, true)
		if err == nil {
			_, err = iterate(func(row *core.FlatRow) (bool, error) {
				dims := bytemap.ByteMap(row.Key).AsMap()
				r := zv.RawRow{Key: zv.KeyString(dims), Per: int64(time.Unix(0, row.TS).Sub(zv.Epoch) / time.Second), Vals: map[string]float64{}, Dims: dims}
				for i, v := range row.Values {
					if i < len(md.FieldNames) {
						r.Vals[md.FieldNames[i]] = v
					}
				}
				viaRPC = append(viaRPC, r)
				return true, nil
			})
		}
		qcancel()
		line["rpc"] = orEmpty(viaRPC)
		if err != nil {
			line["rpcErr"] = err.Error()
		}
		// the cluster: leader plan, partitions answered over rpc
		from := atomic.LoadInt64(&evseq)
		// (every other query carries a generous deadline: the query message then has one more
		// field to keep, and the follower builds its context from it)
		qo := zv.QueryOpts{StallAtRow: -1}
		if qi%2 == 1 {
			qo.DeadlineMs = 20000
		}
		cl, stats, err := lnode.RawQueryOpts(q.SQL, true, qo)
		line["cluster"], line["stats"] = orEmpty(cl), stats
		if err != nil {
			line["clusterErr"] = err.Error()
		}
		line["msgFrom"], line["msgTo"] = from, atomic.LoadInt64(&evseq)
		emit(line)
		// handlers are single use: wait until every partition has one again
		time.Sleep(40 * time.Millisecond)
	}
}

func orEmpty(r []zv.RawRow) []zv.RawRow {
	if r == nil {
		return []zv.RawRow{}
	}
	sort.SliceStable(r, func(i, j int) bool { return false })
	return r
}

// answer is what the follower hands to ProcessRemoteQuery: the database's own
// query function with logging (and an injected failure) around the callbacks
// that send to the leader.
func (f *follower) answer(ctx context.Context, sqlString string, isSubQuery bool, subQueryResults [][]interface{}, unflat bool,
	onFields core.OnFields, onRow core.OnRow, onFlatRow core.OnFlatRow) (interface{}, error) {
	f.mx.Lock()
	query, fault := f.queryFn, f.fault
	f.mx.Unlock()
	q := atomic.AddInt64(&qseq, 1) + 1000000 // the follower's own numbering; matched by order per partition
	queryEvent(q, f.part, "follower", ctx, sqlString, isSubQuery, subQueryResults, unflat)
	sent := 0
	of := func(fl core.Fields) error { event(q, f.part, "follower", "fields", digestFields(fl)); return onFields(fl) }
	var or core.OnRow
	var ofr core.OnFlatRow
	if onRow != nil {
		or = func(key bytemap.ByteMap, vals core.Vals) (bool, error) {
			if fault.Fault == "err" && sent >= fault.After {
				return false, fmt.Errorf("injected failure after %d rows", sent)
			}
			sent++
			event(q, f.part, "follower", "row", digestRow(key, vals))
			return onRow(key, vals)
		}
	}
	if onFlatRow != nil {
		ofr = func(r *core.FlatRow) (bool, error) {
			if fault.Fault == "err" && sent >= fault.After {
				return false, fmt.Errorf("injected failure after %d rows", sent)
			}
			sent++
			event(q, f.part, "follower", "row", digestFlat(r))
			return onFlatRow(r)
		}
	}
	if query == nil {
		return nil, fmt.Errorf("follower not ready")
	}
	stats, err := query(ctx, sqlString, isSubQuery, subQueryResults, unflat, of, or, ofr)
	e := ""
	if err != nil {
		e = "error"
	}
	event(q, f.part, "follower", "end", e)
	return stats, err
}

func main() {
	scratch := flag.String("scratch", "", "scratch directory")
	flag.Parse()
	golog.SetOutputs(ioutil.Discard, ioutil.Discard)
	os.MkdirAll(*scratch, 0755)
	tmp := filepath.Join(*scratch, "tmp")
	os.MkdirAll(tmp, 0755)
	os.Setenv("TMPDIR", tmp)
	out = bufio.NewWriterSize(os.Stdout, 1<<20)
	defer out.Flush()
	ctl := zv.NewCtl(ioutil.Discard)
	wireCtl = ctl
	zenodb.VerifHook = ctl.Hook // shortens the followers' start-up timers
	ctl.Locked(func() { ctl.Gated = false })
	dec := json.NewDecoder(bufio.NewReaderSize(os.Stdin, 1<<20))
	for dec.More() {
		var sc Scenario
		if err := dec.Decode(&sc); err != nil {
			fmt.Fprintln(os.Stderr, "bad scenario:", err)
			os.Exit(2)
		}
		run(&sc, *scratch)
		omx.Lock()
		out.Flush()
		omx.Unlock()
	}
}
