// zvstore executes Store scenarios against an embedded zenodb built from the
// current /repo tree with -tags verif and writes the trace of each scenario
// in the vocabulary of spec/Store.tla (one ndjson line per specification
// action, see spec/TraceStore.tla).
//
//	zvstore -scratch DIR < scenarios.ndjson > trace.ndjson
package main

import (
	"bufio"
	"encoding/json"
	"flag"
	"fmt"
	"io/ioutil"
	"os"
	"path/filepath"
	"strings"
	"sync"
	"time"

	"github.com/getlantern/golog"
	"github.com/getlantern/zenodb"

	"zverif/zv"
)

type Point struct {
	ID  int      `json:"id"`
	TS  int      `json:"ts"`
	K   int      `json:"k"`
	Sat []string `json:"sat"`
	Vs  []string `json:"vs"`
	N   int      `json:"n"`
}

type Cmd struct {
	A        string                     `json:"a"`
	T        string                     `json:"t"`
	P        *Point                     `json:"p"`
	Dims     map[string]json.RawMessage `json:"dims"`
	Vals     map[string]json.RawMessage `json:"vals"`
	Mem      bool                       `json:"mem"`
	SQL      string                     `json:"sql"`
	Tables   []zv.TableDef              `json:"tables"`
	Lines    []map[string]interface{}   `json:"lines"`
	Sorted   bool                       `json:"sorted"`
	Fields   []string                   `json:"fields"`
	Pause    int                        `json:"pause"`
	Hold     bool                       `json:"hold"`
	HoldDone bool                       `json:"holdDone"`
	Set      []SetQuery                 `json:"set"`
	Conc     bool                       `json:"concurrent"`
	SetID    string                     `json:"setId"`
	Desc     map[string]interface{}     `json:"desc"`
	Sub      string                     `json:"sub"`
	Dim      string                     `json:"dim"`
	Outer    string                     `json:"outer"`
	LawID    string                     `json:"lawId"`
	// a second IN (sub-query) of the same WHERE
	Sub2 string `json:"sub2"`
	SQL2 string `json:"sql2"`
	Dim2 string `json:"dim2"`
}

// SetQuery is one member of a set of queries run one after the other or all
// at once (C17).
type SetQuery struct {
	ID        string `json:"id"`
	SQL       string `json:"sql"`
	Mem       bool   `json:"mem"`
	TimeoutUs int    `json:"timeoutUs"` // 0 = generous
	Probe     string `json:"probe"`     // table name if this is a plain SELECT * probe
}

type Scenario struct {
	Scn    string        `json:"scn"`
	Opts   zv.Opts       `json:"opts"`
	Tables []zv.TableDef `json:"tables"`
	Cmds   []Cmd         `json:"cmds"`
}

const stepTimeout = 5 * time.Second

type runner struct {
	ctl     *zv.Ctl
	scratch string
	sc      *Scenario
	node    *zv.Node
	inc     int
	dir     string
	tables  []zv.TableDef
	entries int
	flushCh map[string]chan struct{}
	scans   map[string]*scan
}

// scan is a query held after some of its rows have been delivered.
type scan struct {
	release chan struct{}
	done    chan struct{}
	line    map[string]interface{}
}

func (r *runner) fail(format string, args ...interface{}) error {
	return fmt.Errorf(format, args...)
}

func (r *runner) setAbs() {
	abs := map[string]zv.TableAbs{}
	for _, t := range r.tables {
		abs[t.Name] = t.Abs
	}
	r.ctl.Locked(func() { r.ctl.Abs = abs })
}

func (r *runner) start() error {
	r.ctl.Locked(func() { r.ctl.ResetIncarnation() })
	r.setAbs()
	r.ctl.Emit(map[string]interface{}{"a": "Start"})
	n, err := zv.OpenNode(r.dir, &r.sc.Opts, r.tables)
	r.node = n
	r.flushCh = map[string]chan struct{}{}
	if err != nil {
		return err
	}
	// a query issued before the row store goroutine has installed its first
	// memstore dereferences nil (row_store.go:335); wait for it
	return r.ctl.WaitCond(stepTimeout, "row stores ready", func() bool {
		for _, t := range r.tables {
			if r.ctl.Ready[t.Name] == 0 {
				return false
			}
		}
		return true
	})
}

// abandon shuts the current instance down without recording anything.
func (r *runner) abandon() {
	if r.node == nil || r.node.DB == nil {
		return
	}
	r.ctl.Drop(true)
	// let the pipeline drain first: Close hangs if a table goroutine is still
	// handing an insert to a row store that has already stopped
	r.ctl.WaitCond(2*time.Second, "drain", r.quiescent)
	r.node.CloseTimeout(3 * time.Second)
	// let stragglers run into the dropping controller
	time.Sleep(5 * time.Millisecond)
	r.ctl.Drop(false)
	r.node = nil
}

// quiescent: every table has consumed the whole WAL and every row-store
// insert handed over has been applied (called under the controller lock)
func (r *runner) quiescent() bool {
	for _, t := range r.tables {
		if r.ctl.Verdicts[t.Name] < r.entries-r.ctl.OpenOff[t.Name] || r.ctl.Applies[t.Name] < r.ctl.Offers[t.Name] {
			return false
		}
	}
	return true
}

func (r *runner) settle() error {
	ctl := r.ctl
	deadline := time.Now().Add(8 * stepTimeout)
	for time.Now().Before(deadline) {
		var table, role string
		var pk *zv.Park
		done := false
		ctl.Locked(func() {
			for _, ro := range []string{"rs", "tbl"} {
				for _, t := range r.tables {
					if p := ctl.ParkedLocked(t.Name, ro); p != nil && pk == nil {
						table, role, pk = t.Name, ro, p
					}
				}
			}
			done = pk == nil && r.quiescent()
		})
		if done {
			for t, ch := range r.flushCh {
				select {
				case <-ch:
				case <-time.After(stepTimeout):
					return r.fail("forced flush of %s did not return", t)
				}
				delete(r.flushCh, t)
			}
			return nil
		}
		if pk == nil {
			// nothing parked yet: a reader is polling the WAL, or a goroutine is
			// between two gates
			time.Sleep(2 * time.Millisecond)
			continue
		}
		var applies, offers, fdone, reads, verdicts int
		ctl.Locked(func() {
			applies, offers, fdone = ctl.Applies[table], ctl.Offers[table], ctl.FlushDone[table]+ctl.OffWritten[table]
			reads, verdicts = ctl.Reads[table], ctl.Verdicts[table]
		})
		ctl.Release(table, role)
		err := ctl.WaitCond(stepTimeout, "settle step "+table+"/"+role+"/"+pk.Ev, func() bool {
			if ctl.ParkedLocked(table, role) != nil {
				return true
			}
			switch pk.Ev {
			case "tbl.read":
				return ctl.Reads[table] > reads && ctl.Verdicts[table] > verdicts
			case "rs.offer":
				_ = offers
				return ctl.Applies[table] > applies && ctl.Verdicts[table] > verdicts
			default: // flush steps
				return ctl.FlushDone[table]+ctl.OffWritten[table] > fdone
			}
		})
		if err != nil {
			return err
		}
	}
	return r.fail("settle did not reach quiescence")
}

func (r *runner) exec(c *Cmd) error {
	ctl := r.ctl
	tick := r.sc.Opts.Tick()
	switch c.A {
	case "Insert":
		dims, err := zv.ValueMap(c.Dims, tick)
		if err != nil {
			return err
		}
		vals, err := zv.ValueMap(c.Vals, tick)
		if err != nil {
			return err
		}
		ts := zv.Epoch.Add(time.Duration(c.P.TS) * tick)
		r.entries++
		ctl.RegisterInsert(zv.EntryBytes(ts, dims, vals), r.entries)
		ctl.StepMu.RLock()
		ctl.Emit(map[string]interface{}{"a": "Insert", "p": c.P})
		err = r.node.DB.Insert(r.sc.Opts.Stream, ts, dims, vals)
		ctl.StepMu.RUnlock()
		if err != nil {
			return r.fail("insert: %v", err)
		}
	case "Decide":
		if _, err := ctl.WaitPark(c.T, "tbl", stepTimeout, "tbl.read"); err != nil {
			return err
		}
		var reads, verdicts int
		ctl.Locked(func() { reads, verdicts = ctl.Reads[c.T], ctl.Verdicts[c.T] })
		ctl.Release(c.T, "tbl")
		// decided when the table goroutine parks at its next gate or has
		// finished the entry
		return ctl.WaitCond(stepTimeout, "decision of "+c.T, func() bool {
			return ctl.Reads[c.T] > reads && (ctl.Verdicts[c.T] > verdicts || parkedAt(ctl, c.T, "tbl", "rs.offer"))
		})
	case "Apply":
		if _, err := ctl.WaitPark(c.T, "tbl", stepTimeout, "rs.offer"); err != nil {
			return err
		}
		var applies int
		ctl.Locked(func() { applies = ctl.Applies[c.T] })
		ctl.Release(c.T, "tbl")
		return ctl.WaitCond(stepTimeout, "apply in "+c.T, func() bool { return ctl.Applies[c.T] > applies })
	case "FlushBegin":
		if parkedNow(ctl, c.T, "rs", "flush.begin") {
			// the flush an Alter forces has already begun
			return nil
		}
		ch := make(chan struct{})
		r.flushCh[c.T] = ch
		db := r.node.DB
		go func() {
			db.VerifFlushTable(c.T)
			close(ch)
		}()
		_, err := ctl.WaitPark(c.T, "rs", stepTimeout, "flush.begin")
		return err
	case "FlushTemp":
		if _, err := ctl.WaitPark(c.T, "rs", stepTimeout, "flush.begin"); err != nil {
			return err
		}
		ctl.Release(c.T, "rs")
		_, err := ctl.WaitPark(c.T, "rs", stepTimeout, "flush.temp")
		return err
	case "FlushRename":
		if _, err := ctl.WaitPark(c.T, "rs", stepTimeout, "flush.temp"); err != nil {
			return err
		}
		ctl.Release(c.T, "rs")
		_, err := ctl.WaitPark(c.T, "rs", stepTimeout, "flush.renamed")
		return err
	case "FlushSwap":
		if _, err := ctl.WaitPark(c.T, "rs", stepTimeout, "flush.renamed"); err != nil {
			return err
		}
		var done int
		ctl.Locked(func() {
			done = ctl.FlushDone[c.T]
			if c.HoldDone {
				ctl.HoldDone[c.T] = true
			}
		})
		ctl.Release(c.T, "rs")
		if err := ctl.WaitCond(stepTimeout, "flush done in "+c.T, func() bool { return ctl.FlushDone[c.T] > done }); err != nil {
			return err
		}
		if c.HoldDone {
			// the new file store is installed and the flush has not returned yet:
			// the scenario queries in this state and then sends FlushDone
			_, err := ctl.WaitPark(c.T, "rs", stepTimeout, "flush.done")
			return err
		}
		if ch := r.flushCh[c.T]; ch != nil {
			select {
			case <-ch:
			case <-time.After(stepTimeout):
				return r.fail("forced flush of %s did not return", c.T)
			}
			delete(r.flushCh, c.T)
		}
	case "FlushDone":
		if parkedNow(ctl, c.T, "rs", "flush.done") {
			ctl.Release(c.T, "rs")
		}
		if ch := r.flushCh[c.T]; ch != nil {
			select {
			case <-ch:
			case <-time.After(stepTimeout):
				return r.fail("forced flush of %s did not return", c.T)
			}
			delete(r.flushCh, c.T)
		}
	case "OffWrite":
		ch := make(chan struct{})
		db := r.node.DB
		go func() {
			db.VerifFlushTable(c.T)
			close(ch)
		}()
		if _, err := ctl.WaitPark(c.T, "rs", stepTimeout, "off.temp"); err != nil {
			return err
		}
		ctl.Release(c.T, "rs")
		select {
		case <-ch:
		case <-time.After(stepTimeout):
			return r.fail("offset flush of %s did not return", c.T)
		}
	case "Flush": // ungated full flush (free mode)
		r.node.DB.VerifFlushTable(c.T)
	case "Query":
		sql := c.SQL
		fields := c.Fields
		if fields == nil {
			fields = []string{}
		}
		win := len(fields) > 0
		if sql == "" {
			sql = "SELECT * FROM " + c.T
			if win {
				if r.node.DB.VerifNow().IsZero() {
					// nothing processed since the restart: the default window of a
					// virtual clock at the zero time is meaningless
					return nil
				}
				sel := make([]string, 0, len(fields))
				for _, f := range fields {
					if f == "p" {
						f = "_points"
					}
					sel = append(sel, f)
				}
				sql = "SELECT " + strings.Join(sel, ", ") + " FROM " + c.T
			}
		}
		raw := map[string]bool{}
		for _, t := range r.tables {
			if t.Name == c.T {
				for _, f := range t.Raw {
					raw[f] = true
				}
			}
		}
		rows, vals, _, err := r.node.ProbeRaw(sql, c.Mem, stepTimeout, raw)
		line := map[string]interface{}{"a": "QueryResult", "t": c.T, "mem": c.Mem, "rows": rows, "fields": fields, "win": win, "held": 0}
		if len(vals) > 0 {
			line["vals"] = vals
		}
		if rows == nil {
			line["rows"] = []zv.Row{}
		}
		if err != nil {
			line["err"] = err.Error()
		}
		ctl.Emit(line)
	case "RunSet":
		type res struct {
			rows []zv.RawRow
			err  error
			dec  []zv.Row
		}
		out := make([]res, len(c.Set))
		var wg sync.WaitGroup
		start := make(chan struct{})
		var starts int
		ctl.Locked(func() { starts = ctl.ScanStarts })
		for i := range c.Set {
			i := i
			q := c.Set[i]
			wg.Add(1)
			run := func() {
				defer wg.Done()
				if c.Conc {
					<-start
				}
				to := stepTimeout
				if q.TimeoutUs > 0 {
					to = time.Duration(q.TimeoutUs) * time.Microsecond
				}
				out[i].rows, out[i].err = r.node.RawQuery(q.SQL, q.Mem, to)
				if q.Probe != "" && out[i].err == nil {
					out[i].dec = r.node.DecodeRaw(out[i].rows)
				}
			}
			if c.Conc {
				go run()
			} else {
				run()
			}
		}
		if c.Conc {
			close(start)
			wg.Wait()
		}
		var scans int
		ctl.Locked(func() { scans = ctl.ScanStarts - starts })
		for i, q := range c.Set {
			line := map[string]interface{}{"a": "Other", "set": c.SetID, "id": q.ID, "sql": q.SQL, "mem": q.Mem,
				"concurrent": c.Conc, "raw": out[i].rows, "scans": scans, "nrows": len(out[i].rows)}
			if out[i].rows == nil {
				line["raw"] = []zv.RawRow{}
			}
			if out[i].err != nil {
				line["err"] = out[i].err.Error()
			}
			ctl.Emit(line)
			if q.Probe != "" && out[i].err == nil {
				dec := out[i].dec
				if dec == nil {
					dec = []zv.Row{}
				}
				ctl.Emit(map[string]interface{}{"a": "QueryResult", "t": q.Probe, "mem": q.Mem, "rows": dec,
					"fields": []string{}, "win": false, "held": 0})
			}
		}
	case "GQuery":
		// a grouped / time-ranged query whose rows are bound to the specification
		raw, err := r.node.RawQuery(c.SQL, c.Mem, stepTimeout)
		fields := c.Fields
		if fields == nil {
			fields = []string{}
		}
		line := map[string]interface{}{"a": "GQueryResult", "t": c.T, "mem": c.Mem, "sql": c.SQL, "desc": c.Desc,
			"fields": fields, "err": "", "raw": raw}
		dec := r.node.DecodeRawFields(raw, fields)
		if dec == nil {
			dec = []zv.Row{}
		}
		line["rows"] = dec
		if raw == nil {
			line["raw"] = []zv.RawRow{}
		}
		if err != nil {
			line["err"] = err.Error()
		}
		ctl.Emit(line)
	case "InLaw":
		// dim IN (subquery) against dim IN (literal list of the distinct values
		// the subquery returns)
		// c.SQL is the sub-query as a query of its own (c.Sub selects the dimension,
		// which is only meaningful nested)
		line := map[string]interface{}{"a": "Other", "law": "in", "lawId": c.LawID, "sub": c.Sub, "outer": c.Outer, "mem": c.Mem}
		literals := func(sql, dim string) ([]string, error) {
			sub, err := r.node.RawQuery(sql, c.Mem, stepTimeout)
			if err != nil {
				return nil, err
			}
			seen := map[string]bool{}
			typeOf := map[string]string{}
			var lits []string
			for _, row := range sub {
				v, ok := row.Dims[dim]
				if !ok || v == nil {
					// goexpr's IN compares NULL equal to every zero value (0, '', false): a
					// sub-query that returns a NULL has no equivalent literal list
					return nil, fmt.Errorf("the sub-query returns a NULL, which a literal list cannot express")
				}
				var lit string
				switch x := v.(type) {
				case string:
					lit = "'" + x + "'"
				default:
					lit = fmt.Sprint(x)
				}
				// values of different types that print alike (int 1 and float64 1) are different
				// values for IN: one literal cannot stand for both
				ty := fmt.Sprintf("%T", v)
				if prev, ok := typeOf[lit]; ok && prev != ty {
					return nil, fmt.Errorf("the sub-query returns %s as %s and as %s, which one literal cannot express", lit, prev, ty)
				}
				typeOf[lit] = ty
				if !seen[lit] {
					seen[lit] = true
					lits = append(lits, lit)
				}
			}
			return lits, nil
		}
		lits, err := literals(c.SQL, c.Dim)
		if err != nil {
			line["err"] = "sub: " + err.Error()
			ctl.Emit(line)
			return nil
		}
		line["values"] = lits
		if len(lits) == 0 {
			line["err"] = "subquery returned no values"
			ctl.Emit(line)
			return nil
		}
		if c.Sub2 != "" {
			lits2, err := literals(c.SQL2, c.Dim2)
			if err != nil || len(lits2) == 0 {
				line["err"] = fmt.Sprintf("second subquery: %v, %d values", err, len(lits2))
				ctl.Emit(line)
				return nil
			}
			line["values2"], line["sub2"] = lits2, c.Sub2
			nested, err1 := r.node.RawQuery(fmt.Sprintf(c.Outer, "("+c.Sub+")", "("+c.Sub2+")"), c.Mem, stepTimeout)
			literal, err2 := r.node.RawQuery(fmt.Sprintf(c.Outer, "("+strings.Join(lits, ", ")+")", "("+strings.Join(lits2, ", ")+")"), c.Mem, stepTimeout)
			line["nested"], line["literal"] = nested, literal
			if nested == nil {
				line["nested"] = []zv.RawRow{}
			}
			if literal == nil {
				line["literal"] = []zv.RawRow{}
			}
			if err1 != nil {
				line["errNested"] = err1.Error()
			}
			if err2 != nil {
				line["errLiteral"] = err2.Error()
			}
			ctl.Emit(line)
			return nil
		}
		nested, err1 := r.node.RawQuery(fmt.Sprintf(c.Outer, "("+c.Sub+")"), c.Mem, stepTimeout)
		literal, err2 := r.node.RawQuery(fmt.Sprintf(c.Outer, "("+strings.Join(lits, ", ")+")"), c.Mem, stepTimeout)
		line["nested"], line["literal"] = nested, literal
		if nested == nil {
			line["nested"] = []zv.RawRow{}
		}
		if literal == nil {
			line["literal"] = []zv.RawRow{}
		}
		if err1 != nil {
			line["errNested"] = err1.Error()
		}
		if err2 != nil {
			line["errLiteral"] = err2.Error()
		}
		ctl.Emit(line)
	case "RunSQL":
		// any query; only its row count is recorded
		n := 0
		_, _, _, err := r.node.ProbeHook(c.SQL, c.Mem, stepTimeout, map[string]bool{"*": true}, func(k int) { n = k })
		line := map[string]interface{}{"a": "Other", "sql": c.SQL, "mem": c.Mem, "nrows": n}
		if err != nil {
			line["err"] = err.Error()
		}
		ctl.Emit(line)
	case "ScanBegin":
		sc := &scan{release: make(chan struct{}), done: make(chan struct{})}
		paused := make(chan struct{})
		var once sync.Once
		node := r.node
		raw := map[string]bool{}
		for _, t := range r.tables {
			if t.Name == c.T {
				for _, f := range t.Raw {
					raw[f] = true
				}
			}
		}
		ctl.Emit(map[string]interface{}{"a": "ScanBegin", "t": c.T})
		if c.Hold {
			ctl.Locked(func() { ctl.HoldScan[c.T] = true })
		}
		go func() {
			rows, vals, _, err := node.ProbeHook("SELECT * FROM "+c.T, c.Mem, 6*stepTimeout, raw, func(n int) {
				if n == c.Pause+1 {
					once.Do(func() { close(paused) })
					<-sc.release
				}
			})
			sc.line = map[string]interface{}{"a": "QueryResult", "t": c.T, "mem": c.Mem, "rows": rows, "fields": []string{}, "win": false, "held": c.Pause + 1}
			if rows == nil {
				sc.line["rows"] = []zv.Row{}
			}
			if len(vals) > 0 {
				sc.line["vals"] = vals
			}
			if err != nil {
				sc.line["err"] = err.Error()
			}
			once.Do(func() { close(paused) })
			close(sc.done)
		}()
		if r.scans == nil {
			r.scans = map[string]*scan{}
		}
		r.scans[c.T] = sc
		if c.Hold {
			// held right after the scan has taken its file store and memstore copy
			_, err := ctl.WaitPark(c.T, "scan", stepTimeout, "iter.copied")
			return err
		}
		select {
		case <-paused:
		case <-time.After(stepTimeout):
			return r.fail("scan of %s neither paused nor finished", c.T)
		}
	case "ScanEnd":
		sc := r.scans[c.T]
		if sc == nil {
			return r.fail("no scan of %s in progress", c.T)
		}
		delete(r.scans, c.T)
		if parkedNow(ctl, c.T, "scan", "iter.copied") {
			ctl.Release(c.T, "scan")
		}
		close(sc.release)
		select {
		case <-sc.done:
		case <-time.After(stepTimeout):
			return r.fail("scan of %s did not finish", c.T)
		}
		ctl.Emit(sc.line)
	case "Crash":
		img := filepath.Join(r.scratch, fmt.Sprintf("%s.%d", r.sc.Scn, r.inc+1))
		ctl.StepMu.Lock()
		var err error
		ctl.Locked(func() {
			err = zv.CopyImage(r.dir, img)
			ctl.EmitLocked(map[string]interface{}{"a": "Crash"})
		})
		ctl.StepMu.Unlock()
		if err != nil {
			return err
		}
		old := r.dir
		r.abandon()
		os.RemoveAll(old)
		r.dir = img
		r.inc++
	case "Close":
		// clean close: the final flushes run ungated and are recorded
		ctl.SetGated(false)
		ok := r.node.CloseTimeout(10 * time.Second)
		ctl.SetGated(true)
		if !ok {
			return r.fail("Close did not return")
		}
		ctl.Emit(map[string]interface{}{"a": "Close"})
		r.node = nil
	case "Start":
		if c.Tables != nil {
			r.tables = c.Tables
		}
		return r.start()
	case "Alter":
		r.tables = c.Tables
		r.setAbs()
		var fieldsSet, fieldsDone int
		ctl.Locked(func() { fieldsSet, fieldsDone = ctl.FieldsSet[c.T], ctl.FieldsDone[c.T] })
		for _, l := range c.Lines {
			ctl.Emit(l)
		}
		done := make(chan error, 1)
		db := r.node.DB
		go func() { done <- db.ApplySchema(schemaFor(r.tables, tick)) }()
		select {
		case err := <-done:
			if err != nil {
				return err
			}
		case <-time.After(stepTimeout):
			return r.fail("ApplySchema did not return")
		}
		if c.Mem {
			// the row store has received the new field list; wait until it has
			// installed it (and, with a non-empty memstore, begun the forced flush)
			cond := func() bool {
				return ctl.FieldsSet[c.T] > fieldsSet && (ctl.FieldsDone[c.T] > fieldsDone ||
					parkedAt(ctl, c.T, "rs", "flush.begin") || parkedAt(ctl, c.T, "rs", "off.temp"))
			}
			if err := ctl.WaitCond(stepTimeout, "row store of "+c.T+" to take the new fields", cond); err != nil {
				return err
			}
			if parkedNow(ctl, c.T, "rs", "off.temp") {
				// empty memstore whose offset moved: the forced flush writes the offset file
				ctl.Release(c.T, "rs")
				return ctl.WaitCond(stepTimeout, "row store of "+c.T+" to finish the field update", func() bool {
					return ctl.FieldsDone[c.T] > fieldsDone
				})
			}
			return nil
		}
	case "Settle":
		// step everything that is parked, one goroutine at a time (flush steps
		// first, they block the row store), until every table has consumed the
		// whole WAL and every row-store insert handed over has been applied
		return r.settle()
	case "Gate":
		ctl.SetGated(c.Mem)
	case "Sleep":
		time.Sleep(time.Duration(c.P.TS) * time.Millisecond)
	default:
		return r.fail("unknown command %q", c.A)
	}
	return nil
}

func schemaFor(tables []zv.TableDef, tick time.Duration) zenodb.Schema {
	s := zenodb.Schema{}
	for _, t := range tables {
		s[t.Name] = &zenodb.TableOpts{
			View:            t.View,
			RetentionPeriod: time.Duration(t.RetTicks) * tick,
			SQL:             t.SQL,
			PartitionBy:     t.Partition,
			MaxFlushLatency: time.Duration(t.MaxFlush) * time.Millisecond,
			MinFlushLatency: time.Duration(t.MinFlush) * time.Millisecond,
		}
	}
	return s
}

func parkedNow(ctl *zv.Ctl, table, role, ev string) bool {
	p := ctl.Parked(table, role)
	return p != nil && p.Ev == ev
}

func parkedAt(ctl *zv.Ctl, table, role, ev string) bool {
	// caller holds the controller lock (WaitCond predicate)
	p := ctl.ParkedLocked(table, role)
	return p != nil && p.Ev == ev
}

func (r *runner) run(sc *Scenario) {
	r.sc = sc
	r.tables = sc.Tables
	r.inc = 0
	r.entries = 0
	r.dir = filepath.Join(r.scratch, sc.Scn+".0")
	r.ctl.Locked(func() {
		r.ctl.ResetScenario()
		r.ctl.Gated = true
		r.ctl.EmitLocked(map[string]interface{}{"a": "Reset", "scn": sc.Scn})
	})
	var err error
	for i := range sc.Cmds {
		err = r.exec(&sc.Cmds[i])
		if err != nil {
			r.ctl.Emit(map[string]interface{}{"a": "HarnessError", "scn": sc.Scn, "cmd": i, "op": sc.Cmds[i].A, "t": sc.Cmds[i].T, "err": err.Error()})
			break
		}
	}
	for t, sc := range r.scans {
		close(sc.release)
		delete(r.scans, t)
	}
	if r.node != nil {
		if len(r.node.Panics) > 0 {
			r.ctl.Emit(map[string]interface{}{"a": "DBPanic", "scn": sc.Scn, "panics": r.node.Panics})
		}
		r.abandon()
	}
	os.RemoveAll(r.dir)
}

func main() {
	scratch := flag.String("scratch", "", "scratch directory (same filesystem as TMPDIR)")
	flag.Parse()
	golog.SetOutputs(ioutil.Discard, ioutil.Discard)
	if *scratch == "" {
		fmt.Fprintln(os.Stderr, "need -scratch")
		os.Exit(2)
	}
	os.MkdirAll(*scratch, 0755)
	tmp := filepath.Join(*scratch, "tmp")
	os.MkdirAll(tmp, 0755)
	os.Setenv("TMPDIR", tmp)
	out := bufio.NewWriterSize(os.Stdout, 1<<20)
	defer out.Flush()
	ctl := zv.NewCtl(out)
	zenodb.VerifHook = ctl.Hook
	r := &runner{ctl: ctl, scratch: *scratch}
	in := bufio.NewReaderSize(os.Stdin, 1<<20)
	dec := json.NewDecoder(in)
	for dec.More() {
		var sc Scenario
		if err := dec.Decode(&sc); err != nil {
			fmt.Fprintln(os.Stderr, "bad scenario:", err)
			os.Exit(2)
		}
		r.run(&sc)
		ctl.Locked(func() { out.Flush() })
	}
}
