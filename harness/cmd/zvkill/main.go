// zvkill is the child process of the asynchronous-kill part of C02: in "run"
// mode it opens the database on a directory (recovering whatever an earlier,
// killed incarnation left), inserts the points it is given one by one and
// writes "ack <id>" after each Insert has returned, with timer-driven flushes
// every few milliseconds, until it is killed with SIGKILL by its parent; in
// "verify" mode it opens the directory, waits for ingestion to catch up and
// reports what every table holds as decoded cells.
package main

import (
	"bufio"
	"encoding/json"
	"flag"
	"fmt"
	"io/ioutil"
	"os"
	"path/filepath"
	"sync/atomic"
	"time"

	"github.com/getlantern/golog"

	"zverif/zv"
)

type Point struct {
	ID   int                        `json:"id"`
	TS   int                        `json:"ts"`
	Dims map[string]json.RawMessage `json:"dims"`
	Vals map[string]json.RawMessage `json:"vals"`
}

type Job struct {
	Tables []zv.TableDef `json:"tables"`
	Points []Point       `json:"points"` // run: the points to insert; verify: ignored
	Expect int           `json:"expect"` // verify: number of _points of the widest table to wait for
	PaceUs int           `json:"paceUs"`
	// MaxMemoryRatio > 0: memory cap (every insert then forces a flush of the largest
	// memstore, flushes are sorted in turn, and the sorter spills into several runs)
	MaxMemoryRatio float64 `json:"maxMemoryRatio"`
}

func main() {
	mode := flag.String("mode", "run", "run | verify")
	dir := flag.String("dir", "", "data directory")
	rec := flag.String("rec", "", "record the hook events of this process to the file (for trace validation)")
	life := flag.String("life", "0", "identifies this incarnation in the recorded events")
	flag.Parse()
	golog.SetOutputs(ioutil.Discard, ioutil.Discard)
	tmp := filepath.Join(filepath.Dir(*dir), "tmp")
	os.MkdirAll(tmp, 0755)
	os.Setenv("TMPDIR", tmp)
	var job Job
	if err := json.NewDecoder(bufio.NewReader(os.Stdin)).Decode(&job); err != nil {
		fmt.Fprintln(os.Stderr, "bad job:", err)
		os.Exit(2)
	}
	opts := &zv.Opts{TickMs: 1000, Stream: "inbound", MaxMemoryRatio: job.MaxMemoryRatio}
	if *mode == "run" || *mode == "free" {
		for i := range job.Tables {
			job.Tables[i].MaxFlush, job.Tables[i].MinFlush = 3, 1 // timer-driven flushes every few ms
			if job.MaxMemoryRatio > 0 {
				// under the memory cap it is the inserts that force the flushes (sorted in turn)
				job.Tables[i].MaxFlush, job.Tables[i].MinFlush = 400, 100
			}
		}
	}
	if *rec != "" {
		if _, err := zv.RecordTo(*rec, *life, *dir); err != nil {
			fmt.Fprintln(os.Stderr, "rec:", err)
			os.Exit(2)
		}
	}
	n, err := zv.OpenNode(*dir, opts, job.Tables)
	if err != nil {
		fmt.Fprintln(os.Stderr, "open:", err)
		os.Exit(3)
	}
	out := os.Stdout
	if *mode == "run" {
		fmt.Fprintln(out, "open")
		for _, p := range job.Points {
			dims, err := zv.ValueMap(p.Dims, time.Second)
			if err != nil {
				os.Exit(2)
			}
			vals, err := zv.ValueMap(p.Vals, time.Second)
			if err != nil {
				os.Exit(2)
			}
			fmt.Fprintf(out, "begin %d\n", p.ID)
			if err := n.DB.Insert("inbound", zv.Epoch.Add(time.Duration(p.TS)*time.Second), dims, vals); err != nil {
				fmt.Fprintf(out, "err %d %v\n", p.ID, err)
				continue
			}
			fmt.Fprintf(out, "ack %d\n", p.ID) // the insert has returned: it is acknowledged
			if job.PaceUs > 0 {
				time.Sleep(time.Duration(job.PaceUs) * time.Microsecond)
			}
		}
		fmt.Fprintln(out, "done")
		time.Sleep(time.Hour) // the parent kills us
		return
	}
	if *mode == "free" {
		// C18, free running: one goroutine inserts, timer-driven flushes every few
		// milliseconds, and memstore-inclusive queries run all the while; every result
		// is reported with the number of inserts that had returned before it started
		// and after it ended
		n.DB.VerifAdvanceClock(zv.Epoch.Add(1000 * time.Second))
		var acked int64
		done := make(chan struct{})
		go func() {
			defer close(done)
			for _, p := range job.Points {
				dims, _ := zv.ValueMap(p.Dims, time.Second)
				vals, _ := zv.ValueMap(p.Vals, time.Second)
				if err := n.DB.Insert("inbound", zv.Epoch.Add(time.Duration(p.TS)*time.Second), dims, vals); err == nil {
					atomic.AddInt64(&acked, 1)
				}
				if job.PaceUs > 0 {
					time.Sleep(time.Duration(job.PaceUs) * time.Microsecond)
				}
			}
		}()
		w := bufio.NewWriterSize(out, 1<<20)
		q := 0
		finished := false
		tail := 0
		for tail < 6 {
			select {
			case <-done:
				finished = true
			default:
			}
			if finished {
				tail++
				time.Sleep(5 * time.Millisecond)
			}
			for _, t := range job.Tables {
				before := atomic.LoadInt64(&acked)
				rows, _, err := n.Probe("SELECT * FROM "+t.Name, true, 10*time.Second)
				after := atomic.LoadInt64(&acked)
				line := map[string]interface{}{"a": "Free", "q": q, "t": t.Name, "rows": rows, "before": before, "after": after}
				if rows == nil {
					line["rows"] = []zv.Row{}
				}
				if err != nil {
					line["err"] = err.Error()
				}
				b, _ := json.Marshal(line)
				w.Write(append(b, '\n'))
				q++
			}
		}
		w.Flush()
		n.CloseTimeout(3 * time.Second)
		return
	}
	// verify: the virtual clock restarts at zero on every open
	n.DB.VerifAdvanceClock(zv.Epoch.Add(1000 * time.Second))
	deadline := time.Now().Add(30 * time.Second)
	report := func() map[string][]zv.Row {
		res := map[string][]zv.Row{}
		for _, t := range job.Tables {
			rows, _, err := n.Probe("SELECT * FROM "+t.Name, true, 10*time.Second)
			if err != nil {
				fmt.Fprintln(os.Stderr, "probe:", err)
			}
			res[t.Name] = rows
		}
		return res
	}
	count := func(rows []zv.Row) int {
		c := 0
		for _, r := range rows {
			if r[2] == "p" {
				if v, ok := r[4].(int64); ok {
					c += int(v)
				} else if v, ok := r[4].(int); ok {
					c += v
				} else if f, ok := r[4].(float64); ok {
					c += int(f)
				}
			}
		}
		return c
	}
	var last map[string][]zv.Row
	stable := 0
	prev := -1
	for {
		last = report()
		total := 0
		for _, rows := range last {
			total += count(rows)
		}
		if total == prev {
			stable++
		} else {
			stable, prev = 0, total
		}
		// caught up: the expected number of points is there and nothing has moved for a while
		if (total >= job.Expect && stable >= 10) || time.Now().After(deadline) {
			break
		}
		time.Sleep(20 * time.Millisecond)
	}
	b, _ := json.Marshal(map[string]interface{}{"a": "Verify", "tables": last, "stable": stable})
	out.Write(append(b, '\n'))
	n.CloseTimeout(3 * time.Second)
}
