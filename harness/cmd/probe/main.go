package main

import (
	"context"
	"fmt"
	"io/ioutil"
	"os"
	"path/filepath"
	"time"

	"github.com/getlantern/bytemap"
	"github.com/getlantern/golog"
	"github.com/getlantern/zenodb"
	"github.com/getlantern/zenodb/core"
)

func main() {
	golog.SetOutputs(ioutil.Discard, ioutil.Discard)
	dir, _ := ioutil.TempDir("", "zv")
	defer os.RemoveAll(dir)
	os.Setenv("TMPDIR", dir)
	epoch := time.Date(2020, 1, 1, 0, 0, 0, 0, time.UTC)
	open := func() *zenodb.DB {
		db, err := zenodb.NewDB(&zenodb.DBOpts{Dir: filepath.Join(dir, "db"), VirtualTime: true, IterationCoalesceInterval: time.Millisecond, Panic: func(e interface{}) { fmt.Println("PANIC", e) }})
		if err != nil {
			panic(err)
		}
		err = db.ApplySchema(zenodb.Schema{"t1": &zenodb.TableOpts{RetentionPeriod: 100 * time.Second, SQL: "SELECT SUM(w) AS w, MAX(v) AS mv FROM inbound GROUP BY a, period(2s)"}})
		if err != nil {
			panic(err)
		}
		return db
	}
	db := open()
	st := time.Now()
	for i := 0; i < 5; i++ {
		err := db.Insert("inbound", epoch.Add(time.Duration(i)*time.Second), map[string]interface{}{"a": i % 2, "b": "x"}, map[string]interface{}{"w": float64(int(1) << uint(2*i)), "v": i})
		if err != nil {
			panic(err)
		}
	}
	fmt.Println("insert", time.Since(st))
	q := func(db *zenodb.DB) {
		st := time.Now()
		src, err := db.Query("SELECT * FROM t1", false, nil, true)
		if err != nil {
			panic(err)
		}
		_, err = src.Iterate(context.Background(), func(f core.Fields) error { fmt.Println(f.Names()); return nil }, func(row *core.FlatRow) (bool, error) {
			fmt.Println(time.Unix(0, row.TS).UTC(), bytemap.ByteMap(row.Key).AsMap(), row.Values)
			return true, nil
		})
		fmt.Println("query", time.Since(st), err)
	}
	time.Sleep(200 * time.Millisecond)
	q(db)
	st = time.Now()
	db.FlushAll()
	fmt.Println("flush", time.Since(st))
	q(db)
	st = time.Now()
	db.Close()
	fmt.Println("close", time.Since(st))
	db = open()
	q(db)
	db.Insert("inbound", epoch.Add(5*time.Second), map[string]interface{}{"a": 1}, map[string]interface{}{"w": 1024.0, "v": 7})
	time.Sleep(200 * time.Millisecond)
	q(db)
	db.Close()
}
