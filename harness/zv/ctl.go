package zv

import (
	"encoding/json"
	"fmt"
	"io"
	"sync"
	"time"

	"github.com/getlantern/wal"
	"github.com/getlantern/zenodb/common"
)

// Ctl receives the hook events of the instrumented zenodb build, turns them
// into trace lines in the vocabulary of spec/Store.tla, and (in gated mode)
// parks the calling goroutine until the driver releases it, which lets a
// script dictate the interleaving of the real goroutines.
type Ctl struct {
	mu   sync.Mutex
	cond *sync.Cond
	out  io.Writer

	Gated    bool // park at the gate hooks
	dropping bool // ignore everything (an abandoned instance is being closed)

	// StepMu is held (shared) around every step that changes files (WAL write,
	// rename of a flushed file or of the offset file) and exclusively while a
	// crash image is copied, so an image never contains half a logged step.
	StepMu   sync.RWMutex
	holdStep map[string]bool

	parks map[string]*Park // table + "/" + role ("tbl" | "rs")

	// WAL offset -> entry index (1-based position in the scenario's WAL)
	offIdx map[[2]int64]int
	sigs   map[string][]int // entry content -> indices not yet seen by a reader
	// per-table counters
	Reads, Verdicts, Offers, Applies, FlushDone, OffWritten map[string]int
	OpenOff, Ready, FieldsSet, FieldsDone                   map[string]int
	Events, ScanStarts                                      int
	// abstract schema of the tables (for Open lines)
	Abs map[string]TableAbs
	// cluster: per leader ("@leader.N") the entries it has pushed through its
	// follower bookkeeping and whom it included; OnLeaderEntry is called (under
	// the controller lock) for each
	LeaderEntries map[string]int
	FolOffers     map[string]int // table -> entries a follower has handed to its pipeline
	// FollowTables: number of tables a follower subscribes before it may start following
	FollowTables  int
	timerHits     map[*time.Timer]int
	OnLeaderEntry func(leader string, off [2]int64, data []byte, included []common.FollowerID)
	OnLeaderJoin  func(leader string, f common.FollowerID, table string, off, earliest [2]int64)
	// HoldScan[table]: park the next scan of the table right after it has taken
	// its file store and memstore copy (one shot)
	HoldScan map[string]bool
	// HoldDone[table]: park the table's next flush right after it has installed the new
	// file store (hook flush.done, no lock held), before it returns (one shot)
	HoldDone map[string]bool
	// extra callback on every hook (fault injection, crash images)
	OnHook func(ev string, table string)
}

// TableAbs is the abstract (specification-level) description of a table.
type TableAbs struct {
	W  string   `json:"w"`
	Fs []string `json:"fs"`
}

// Park is a goroutine of the database parked at a gate.
type Park struct {
	Ev  string
	Idx int
	Sub int
	ch  chan struct{}
}

func NewCtl(out io.Writer) *Ctl {
	c := &Ctl{out: out}
	c.cond = sync.NewCond(&c.mu)
	c.ResetScenario()
	return c
}

// ResetScenario forgets everything about the previous scenario.
func (c *Ctl) ResetScenario() {
	c.parks = map[string]*Park{}
	c.offIdx = map[[2]int64]int{}
	c.sigs = map[string][]int{}
	c.holdStep = map[string]bool{}
	c.HoldScan = map[string]bool{}
	c.HoldDone = map[string]bool{}
	c.LeaderEntries = map[string]int{}
	c.FolOffers = map[string]int{}
	c.ResetIncarnation()
}

// ResetIncarnation clears the per-process counters (a new DB instance starts).
func (c *Ctl) ResetIncarnation() {
	c.Reads, c.Verdicts, c.Applies = map[string]int{}, map[string]int{}, map[string]int{}
	c.Offers, c.OpenOff, c.Ready = map[string]int{}, map[string]int{}, map[string]int{}
	c.FieldsSet, c.FieldsDone = map[string]int{}, map[string]int{}
	c.FlushDone, c.OffWritten = map[string]int{}, map[string]int{}
	c.parks = map[string]*Park{}
}

// Emit appends one trace line. Callers hold c.mu.
func (c *Ctl) emit(line map[string]interface{}) {
	b, err := json.Marshal(line)
	if err != nil {
		panic(err)
	}
	c.out.Write(append(b, '\n'))
	c.Events++
}

// Emit appends one trace line (driver side).
func (c *Ctl) Emit(line map[string]interface{}) {
	c.mu.Lock()
	c.emit(line)
	c.cond.Broadcast()
	c.mu.Unlock()
}

// RegisterInsert tells the controller the content of WAL entry idx, so that
// offsets seen by readers can be mapped to entry indices.
func (c *Ctl) RegisterInsert(sig []byte, idx int) {
	c.mu.Lock()
	c.sigs[string(sig)] = append(c.sigs[string(sig)], idx)
	c.mu.Unlock()
}

func offKey(o wal.Offset) [2]int64 { return [2]int64{o.FileSequence(), o.Position()} }

func (c *Ctl) idxOf(o wal.Offset) int {
	if len(o) == 0 {
		return 0
	}
	if i, ok := c.offIdx[offKey(o)]; ok {
		return i
	}
	return -1
}

func (c *Ctl) offsets0(v interface{}) int {
	obs, _ := v.(common.OffsetsBySource)
	return c.idxOf(obs[0])
}

// park blocks the calling goroutine until the driver releases it. Callers
// hold c.mu; it is released while parked.
func (c *Ctl) park(table, role, ev string, idx, sub int) {
	if !c.Gated || c.dropping {
		return
	}
	p := &Park{Ev: ev, Idx: idx, Sub: sub, ch: make(chan struct{})}
	c.parks[table+"/"+role] = p
	c.cond.Broadcast()
	c.mu.Unlock()
	<-p.ch
	c.mu.Lock()
}

// Hook is installed as zenodb.VerifHook.
func (c *Ctl) Hook(ev string, kv ...interface{}) {
	if ev == "wal.cap" {
		// capWALAge spins; keep it from eating a core per database
		time.Sleep(20 * time.Millisecond)
		return
	}
	table, _ := kv[0].(string)
	switch ev {
	case "fol.timer":
		// Followers wait 30 s (5 s after every table that subscribes) before they
		// start following.  The wait is cut short only once all tables have
		// subscribed: a table that subscribes after the timer has fired is not
		// entered into the follow message's partitions (followLeaders appends it
		// to tables and offsets only) and is then fed by what other tables receive -
		// a real database applies its schema well inside the wait.
		if t, ok := kv[1].(*time.Timer); ok {
			c.mu.Lock()
			if c.timerHits == nil {
				c.timerHits = map[*time.Timer]int{}
			}
			c.timerHits[t]++
			hits, want := c.timerHits[t], c.FollowTables
			c.mu.Unlock()
			if want > 0 && hits <= want {
				t.Reset(3 * time.Second) // still waiting for tables
			} else {
				t.Reset(5 * time.Millisecond)
			}
		}
		return
	case "ldr.entry":
		c.mu.Lock()
		c.LeaderEntries[table]++
		if c.OnLeaderEntry != nil {
			inc := append([]common.FollowerID(nil), kv[3].([]common.FollowerID)...)
			c.OnLeaderEntry(table, offKey(kv[1].(wal.Offset)), kv[2].([]byte), inc)
		}
		c.cond.Broadcast()
		c.mu.Unlock()
		return
	case "fol.offer":
		// a follower has handed an entry to this table's pipeline (the table's goroutine
		// has taken it off the channel but may not have announced it with tbl.read yet)
		c.mu.Lock()
		c.FolOffers[table]++
		c.cond.Broadcast()
		c.mu.Unlock()
		return
	case "ldr.joined":
		c.mu.Lock()
		if c.OnLeaderJoin != nil {
			c.OnLeaderJoin(table, kv[1].(common.FollowerID), kv[2].(string), offKey(kv[3].(wal.Offset)), offKey(kv[4].(wal.Offset)))
		}
		c.cond.Broadcast()
		c.mu.Unlock()
		return
	}
	if c.OnHook != nil {
		c.OnHook(ev, table)
	}
	c.mu.Lock()
	defer func() {
		c.cond.Broadcast()
		c.mu.Unlock()
	}()
	if c.dropping {
		// an abandoned instance is draining: keep the counters, record nothing
		switch ev {
		case "flush.renamed", "off.written":
			c.releaseStep(table)
		case "tbl.read":
			c.Reads[table]++
		case "tbl.verdict":
			c.Verdicts[table]++
		case "rs.offer":
			c.Offers[table]++
		case "rs.apply":
			c.Applies[table]++
		}
		return
	}
	switch ev {
	case "tbl.read":
		off := kv[1].(wal.Offset)
		data := kv[3].([]byte)
		k := offKey(off)
		idx, ok := c.offIdx[k]
		if !ok {
			q := c.sigs[string(data)]
			if len(q) == 0 {
				idx = -1
			} else {
				idx = q[0]
				c.sigs[string(data)] = q[1:]
			}
			c.offIdx[k] = idx
		}
		c.park(table, "tbl", ev, idx, 0)
		c.Reads[table]++
		if c.dropping {
			return
		}
		c.emit(map[string]interface{}{"a": "Decide", "t": table, "idx": idx})
	case "rs.offer":
		c.park(table, "tbl", ev, c.idxOf(kv[1].(wal.Offset)), kv[3].(int))
		c.Offers[table]++
	case "tbl.verdict":
		c.Verdicts[table]++
	case "rs.apply":
		c.Applies[table]++
		c.emit(map[string]interface{}{"a": "Apply", "t": table, "idx": c.idxOf(kv[1].(wal.Offset)), "data": kv[3].(bool)})
	case "rs.open":
		abs := c.Abs[table]
		c.OpenOff[table] = c.offsets0(kv[2])
		c.emit(map[string]interface{}{"a": "Open", "t": table, "off": c.offsets0(kv[2]), "w": abs.W, "fs": abs.Fs, "file": kv[1]})
	case "rs.ready":
		c.Ready[table]++
	case "rs.fields.done":
		c.FieldsDone[table]++
	case "rs.fields":
		c.FieldsSet[table]++
		c.emit(map[string]interface{}{"a": "RSFields", "t": table})
	case "iter.copied":
		if c.HoldScan[table] {
			c.HoldScan[table] = false
			c.park(table, "scan", ev, 0, 0)
		}
	case "iter.start":
		c.ScanStarts++
		c.emit(map[string]interface{}{"a": "QueryStart", "t": table, "file": kv[1], "mem": kv[2]})
	case "flush.begin":
		c.emit(map[string]interface{}{"a": "FlushBegin", "t": table, "noRaw": kv[2], "sorted": kv[3], "count": kv[1]})
		c.park(table, "rs", ev, 0, 0)
	case "flush.temp":
		c.emit(map[string]interface{}{"a": "FlushTemp", "t": table, "rows": kv[2]})
		c.park(table, "rs", ev, 0, 0)
		c.acquireStep(table)
	case "flush.renamed":
		c.releaseStep(table)
		if c.dropping {
			return
		}
		c.emit(map[string]interface{}{"a": "FlushRename", "t": table, "off": c.offsets0(kv[2]), "file": kv[1]})
		c.park(table, "rs", ev, 0, 0)
	case "flush.swapped":
		c.emit(map[string]interface{}{"a": "FlushSwap", "t": table})
	case "flush.done":
		c.FlushDone[table]++
		if c.HoldDone[table] {
			c.HoldDone[table] = false
			c.park(table, "rs", ev, 0, 0)
		}
	case "off.temp":
		c.park(table, "rs", ev, 0, 0)
		c.acquireStep(table)
	case "off.written":
		c.releaseStep(table)
		if c.dropping {
			return
		}
		if kv[2] == nil {
			c.OffWritten[table]++
			c.emit(map[string]interface{}{"a": "OffWrite", "t": table, "off": c.offsets0(kv[1])})
		}
	case "old.remove":
		c.emit(map[string]interface{}{"a": "RemoveOld", "t": table, "file": kv[1]})
	}
}

// acquireStep / releaseStep bracket a rename. Callers hold c.mu, which is
// dropped while waiting for the step lock (an image copy may be running).
func (c *Ctl) acquireStep(table string) {
	c.mu.Unlock()
	c.StepMu.RLock()
	c.mu.Lock()
	c.holdStep[table] = true
}

func (c *Ctl) releaseStep(table string) {
	if c.holdStep[table] {
		c.holdStep[table] = false
		c.StepMu.RUnlock()
	}
}

// WaitPark waits until the goroutine (table, role) is parked at one of evs.
func (c *Ctl) WaitPark(table, role string, timeout time.Duration, evs ...string) (*Park, error) {
	return c.waitFor(timeout, func() (*Park, bool) {
		p := c.parks[table+"/"+role]
		if p == nil {
			return nil, false
		}
		for _, e := range evs {
			if p.Ev == e {
				return p, true
			}
		}
		return nil, false
	}, fmt.Sprintf("park %s/%s at %v", table, role, evs))
}

// Parked returns the current park of (table, role), if any.
func (c *Ctl) Parked(table, role string) *Park {
	c.mu.Lock()
	defer c.mu.Unlock()
	return c.parks[table+"/"+role]
}

// Release lets the parked goroutine (table, role) continue.
func (c *Ctl) Release(table, role string) {
	c.mu.Lock()
	p := c.parks[table+"/"+role]
	delete(c.parks, table+"/"+role)
	c.mu.Unlock()
	if p != nil {
		close(p.ch)
	}
}

// WaitCond waits until pred (evaluated under the controller lock) holds.
func (c *Ctl) WaitCond(timeout time.Duration, what string, pred func() bool) error {
	_, err := c.waitFor(timeout, func() (*Park, bool) { return nil, pred() }, what)
	return err
}

func (c *Ctl) waitFor(timeout time.Duration, pred func() (*Park, bool), what string) (*Park, error) {
	deadline := time.Now().Add(timeout)
	timer := time.AfterFunc(timeout, func() {
		c.mu.Lock()
		c.cond.Broadcast()
		c.mu.Unlock()
	})
	defer timer.Stop()
	c.mu.Lock()
	defer c.mu.Unlock()
	for {
		if p, ok := pred(); ok {
			return p, nil
		}
		if time.Now().After(deadline) {
			return nil, fmt.Errorf("timeout waiting for %s", what)
		}
		c.cond.Wait()
	}
}

// Drop makes the controller ignore all events and releases every parked
// goroutine; used while an abandoned instance is shut down.
func (c *Ctl) Drop(on bool) {
	c.mu.Lock()
	c.dropping = on
	var ps []*Park
	if on {
		for k, p := range c.parks {
			ps = append(ps, p)
			delete(c.parks, k)
		}
	}
	c.mu.Unlock()
	for _, p := range ps {
		close(p.ch)
	}
}

// SetGated switches gate mode; turning it off releases everything parked.
func (c *Ctl) SetGated(on bool) {
	c.mu.Lock()
	c.Gated = on
	var ps []*Park
	if !on {
		for k, p := range c.parks {
			ps = append(ps, p)
			delete(c.parks, k)
		}
	}
	c.mu.Unlock()
	for _, p := range ps {
		close(p.ch)
	}
}

// Locked runs f under the controller lock (f may call EmitLocked).
func (c *Ctl) Locked(f func()) {
	c.mu.Lock()
	f()
	c.cond.Broadcast()
	c.mu.Unlock()
}

// EmitLocked emits a line; the caller is inside Locked.
func (c *Ctl) EmitLocked(line map[string]interface{}) { c.emit(line) }

// ParkedLocked is Parked for callers that already hold the controller lock
// (predicates passed to WaitCond).
func (c *Ctl) ParkedLocked(table, role string) *Park { return c.parks[table+"/"+role] }
