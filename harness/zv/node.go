package zv

import (
	"context"
	"encoding/json"
	"fmt"
	"io"
	"io/ioutil"
	"os"
	"path/filepath"
	"sort"
	"strings"
	"time"

	"github.com/getlantern/bytemap"
	"github.com/getlantern/zenodb"
	"github.com/getlantern/zenodb/core"
	"github.com/getlantern/zenodb/encoding"
)

// TableDef is the concrete + abstract definition of one table of a scenario.
type TableDef struct {
	Name      string   `json:"name"`
	SQL       string   `json:"sql"`
	View      bool     `json:"view"`
	RetTicks  int      `json:"ret"`
	Partition []string `json:"partitionBy"`
	MaxFlush  int      `json:"maxFlushMs"` // 0 = timer flushes disabled
	MinFlush  int      `json:"minFlushMs"`
	Raw       []string `json:"raw"` // fields reported as plain values, not decoded
	Abs       TableAbs `json:"abs"`
}

// Opts are the scenario-wide options.
type Opts struct {
	TickMs         int     `json:"tickMs"`
	Stream         string  `json:"stream"`
	MaxMemoryRatio float64 `json:"maxMemoryRatio"`
	CoalesceMs     int     `json:"coalesceMs"`
	RealTime       bool    `json:"realTime"`
}

func (o *Opts) Tick() time.Duration {
	if o.TickMs <= 0 {
		return time.Second
	}
	return time.Duration(o.TickMs) * time.Millisecond
}

// Node is one embedded database instance (one incarnation of a directory).
type Node struct {
	DB     *zenodb.DB
	Dir    string
	Opts   *Opts
	Tables []TableDef
	Panics []string
}

// SchemaOf is the zenodb schema of the table definitions.
func SchemaOf(tables []TableDef, tick time.Duration) zenodb.Schema {
	return schemaOf(tables, tick)
}

func schemaOf(tables []TableDef, tick time.Duration) zenodb.Schema {
	s := zenodb.Schema{}
	for _, t := range tables {
		s[t.Name] = &zenodb.TableOpts{
			View:            t.View,
			RetentionPeriod: time.Duration(t.RetTicks) * tick,
			SQL:             t.SQL,
			PartitionBy:     t.Partition,
			MaxFlushLatency: time.Duration(t.MaxFlush) * time.Millisecond,
			MinFlushLatency: time.Duration(t.MinFlush) * time.Millisecond,
		}
	}
	return s
}

// OpenNode opens a database on dir and applies the schema.
func OpenNode(dir string, opts *Opts, tables []TableDef) (*Node, error) {
	n := &Node{Dir: dir, Opts: opts, Tables: tables}
	co := time.Duration(opts.CoalesceMs) * time.Millisecond
	if co <= 0 {
		co = time.Millisecond
	}
	db, err := zenodb.NewDB(&zenodb.DBOpts{
		Dir:                       dir,
		VirtualTime:               !opts.RealTime,
		IterationCoalesceInterval: co,
		IterationConcurrency:      8, // held scans (C18) occupy iteration workers
		MaxMemoryRatio:            opts.MaxMemoryRatio,
		Panic: func(e interface{}) {
			n.Panics = append(n.Panics, fmt.Sprint(e))
		},
	})
	if err != nil {
		return nil, err
	}
	n.DB = db
	if err := db.ApplySchema(schemaOf(tables, opts.Tick())); err != nil {
		return n, err
	}
	return n, nil
}

// CloseTimeout closes the database, giving up after d (Close can hang when a
// table goroutine is blocked handing an insert to a row store that has
// already stopped).
func (n *Node) CloseTimeout(d time.Duration) bool {
	done := make(chan struct{})
	go func() {
		n.DB.Close()
		close(done)
	}()
	select {
	case <-done:
		return true
	case <-time.After(d):
		return false
	}
}

// EntryBytes is the WAL entry DB.Insert writes for a point (insert.go:45-54).
func EntryBytes(ts time.Time, dims, vals map[string]interface{}) []byte {
	d := bytemap.New(dims)
	v := bytemap.New(vals)
	out := make([]byte, encoding.Width64bits+encoding.Width32bits)
	encoding.EncodeTime(out, ts)
	encoding.WriteInt32(out[encoding.Width64bits:], len(d))
	out = append(out, d...)
	l := make([]byte, encoding.Width32bits)
	encoding.WriteInt32(l, len(v))
	out = append(out, l...)
	out = append(out, v...)
	return out
}

// Row is one observed cell: [group key, period end tick, field, point id, count].
// For the _points field (and any field listed in countOnly) id is 0.
type Row [5]interface{}

// FieldMap maps SQL field names to specification field ids.
func fieldID(name string) string {
	if name == "_points" {
		return "p"
	}
	return name
}

// Probe runs sql and decodes the rows into cells of the bag-of-ids observable.
func (n *Node) Probe(sql string, includeMem bool, timeout time.Duration) ([]Row, []string, error) {
	rows, _, names, err := n.ProbeRaw(sql, includeMem, timeout, nil)
	return rows, names, err
}

// ProbeRaw is Probe with the fields named in raw reported as plain values
// [key, period, field, value] instead of being decoded.
func (n *Node) ProbeRaw(sql string, includeMem bool, timeout time.Duration, raw map[string]bool) ([]Row, [][]interface{}, []string, error) {
	return n.ProbeHook(sql, includeMem, timeout, raw, nil)
}

// ProbeHook is ProbeRaw with onRow called after every delivered flat row
// (with the number of rows delivered so far); it may block to hold the scan.
func (n *Node) ProbeHook(sql string, includeMem bool, timeout time.Duration, raw map[string]bool, onRow func(n int)) ([]Row, [][]interface{}, []string, error) {
	var vals [][]interface{}
	delivered := 0
	src, err := n.DB.Query(sql, false, nil, includeMem)
	if err != nil {
		return nil, nil, nil, err
	}
	ctx, cancel := context.WithTimeout(context.Background(), timeout)
	defer cancel()
	var names []string
	var rows []Row
	tick := n.Opts.Tick()
	iterate := func() error {
		_, err := src.Iterate(ctx, func(f core.Fields) error {
			names = f.Names()
			return nil
		}, func(row *core.FlatRow) (bool, error) {
			key := KeyString(bytemap.ByteMap(row.Key).AsMap())
			d := time.Unix(0, row.TS).Sub(Epoch)
			var per interface{} = int64(d / tick)
			if d%tick != 0 {
				per = fmt.Sprintf("offgrid:%d", row.TS)
			}
			for i, v := range row.Values {
				f := fieldID(names[i])
				if raw[f] {
					if v != 0 {
						vals = append(vals, []interface{}{key, per, f, v})
					}
					continue
				}
				if f == "p" {
					if v != 0 {
						rows = append(rows, Row{key, per, f, 0, countOf(v)})
					}
					continue
				}
				ids, counts, ok := Digits(v)
				if !ok {
					rows = append(rows, Row{key, per, f, -1, fmt.Sprintf("undecodable:%v", v)})
					continue
				}
				for j := range ids {
					rows = append(rows, Row{key, per, f, ids[j], counts[j]})
				}
			}
			delivered++
			if onRow != nil {
				onRow(delivered)
			}
			return true, nil
		})
		return err
	}
	// a scan can also hang before it starts (all iteration workers busy): the
	// context does not cover that
	errCh := make(chan error, 1)
	go func() { errCh <- iterate() }()
	select {
	case err = <-errCh:
	case <-time.After(timeout + 2*time.Second):
		return nil, nil, nil, fmt.Errorf("query did not return within %v", timeout+2*time.Second)
	}
	sort.Slice(rows, func(i, j int) bool { return fmt.Sprint(rows[i]) < fmt.Sprint(rows[j]) })
	return rows, vals, names, err
}

func countOf(v float64) interface{} {
	if v == float64(int64(v)) {
		return int64(v)
	}
	return fmt.Sprintf("noninteger:%v", v)
}

// CopyImage copies a database directory the way a crash would leave it: the
// table directories first, the WAL last (the WAL only grows, so the image is
// one a real kill could have produced even if writers are active).
func CopyImage(src, dst string) error {
	entries, err := ioutil.ReadDir(src)
	if err != nil {
		return err
	}
	if err := os.MkdirAll(dst, 0755); err != nil {
		return err
	}
	var last []os.FileInfo
	for _, e := range entries {
		if e.Name() == "_wal" {
			last = append(last, e)
			continue
		}
		if err := copyTree(filepath.Join(src, e.Name()), filepath.Join(dst, e.Name())); err != nil {
			return err
		}
	}
	for _, e := range last {
		if err := copyTree(filepath.Join(src, e.Name()), filepath.Join(dst, e.Name())); err != nil {
			return err
		}
	}
	return nil
}

func copyTree(src, dst string) error {
	fi, err := os.Stat(src)
	if err != nil {
		if os.IsNotExist(err) {
			return nil
		}
		return err
	}
	if !fi.IsDir() {
		in, err := os.Open(src)
		if err != nil {
			if os.IsNotExist(err) {
				return nil
			}
			return err
		}
		defer in.Close()
		out, err := os.Create(dst)
		if err != nil {
			return err
		}
		defer out.Close()
		_, err = io.Copy(out, in)
		return err
	}
	if err := os.MkdirAll(dst, 0755); err != nil {
		return err
	}
	entries, err := ioutil.ReadDir(src)
	if err != nil {
		return err
	}
	for _, e := range entries {
		if err := copyTree(filepath.Join(src, e.Name()), filepath.Join(dst, e.Name())); err != nil {
			return err
		}
	}
	return nil
}

// ListFiles lists a table directory (for diagnostics in traces).
func ListFiles(dir string) []string {
	var out []string
	fis, _ := ioutil.ReadDir(dir)
	for _, fi := range fis {
		out = append(out, fi.Name())
	}
	return out
}

// JSONLine renders v on one line.
func JSONLine(v interface{}) string {
	b, _ := json.Marshal(v)
	return strings.TrimSpace(string(b))
}

// RawRow is one flat row as returned: key string, period end tick, values by
// field name.
type RawRow struct {
	Key  string                 `json:"k"`
	Per  int64                  `json:"p"`
	Vals map[string]float64     `json:"v"`
	Dims map[string]interface{} `json:"d,omitempty"`
}

// RawQuery runs sql and returns the flat rows undecoded, in the order delivered.
func (n *Node) RawQuery(sql string, includeMem bool, timeout time.Duration) ([]RawRow, error) {
	src, err := n.DB.Query(sql, false, nil, includeMem)
	if err != nil {
		return nil, err
	}
	ctx, cancel := context.WithTimeout(context.Background(), timeout)
	defer cancel()
	var names []string
	var rows []RawRow
	tick := n.Opts.Tick()
	iterate := func() error {
		_, err := src.Iterate(ctx, func(f core.Fields) error {
			names = f.Names()
			return nil
		}, func(row *core.FlatRow) (bool, error) {
			dims := bytemap.ByteMap(row.Key).AsMap()
			r := RawRow{Key: KeyString(dims), Per: int64(time.Unix(0, row.TS).Sub(Epoch) / tick),
				Vals: map[string]float64{}, Dims: dims}
			for i, v := range row.Values {
				if i < len(names) {
					r.Vals[names[i]] = v
				}
			}
			rows = append(rows, r)
			return true, nil
		})
		return err
	}
	errCh := make(chan error, 1)
	go func() { errCh <- iterate() }()
	select {
	case err = <-errCh:
	case <-time.After(timeout + 5*time.Second):
		return nil, fmt.Errorf("query did not return within %v", timeout+5*time.Second)
	}
	return rows, err
}

// DecodeRaw decodes raw rows of a SELECT * probe into cells.
func (n *Node) DecodeRaw(raw []RawRow) []Row { return n.DecodeRawFields(raw, nil) }

// DecodeRawFields decodes only the named specification fields (nil = all).
func (n *Node) DecodeRawFields(raw []RawRow, only []string) []Row {
	want := map[string]bool{}
	for _, f := range only {
		want[f] = true
	}
	var rows []Row
	for _, r := range raw {
		for name, v := range r.Vals {
			f := fieldID(name)
			if len(want) > 0 && !want[f] {
				continue
			}
			if f == "p" {
				if v != 0 {
					rows = append(rows, Row{r.Key, r.Per, f, 0, countOf(v)})
				}
				continue
			}
			ids, counts, ok := Digits(v)
			if !ok {
				rows = append(rows, Row{r.Key, r.Per, f, -1, fmt.Sprintf("undecodable:%v", v)})
				continue
			}
			for j := range ids {
				rows = append(rows, Row{r.Key, r.Per, f, ids[j], counts[j]})
			}
		}
	}
	sort.Slice(rows, func(i, j int) bool { return fmt.Sprint(rows[i]) < fmt.Sprint(rows[j]) })
	return rows
}

// RawQueryStats is RawQuery that also returns the query's statistics
// (*common.QueryStats for table and cluster queries).
func (n *Node) RawQueryStats(sql string, includeMem bool, timeout time.Duration) ([]RawRow, interface{}, error) {
	src, err := n.DB.Query(sql, false, nil, includeMem)
	if err != nil {
		return nil, nil, err
	}
	ctx, cancel := context.WithTimeout(context.Background(), timeout)
	defer cancel()
	var names []string
	var rows []RawRow
	var stats interface{}
	tick := n.Opts.Tick()
	iterate := func() error {
		st, err := src.Iterate(ctx, func(f core.Fields) error {
			names = f.Names()
			return nil
		}, func(row *core.FlatRow) (bool, error) {
			dims := bytemap.ByteMap(row.Key).AsMap()
			r := RawRow{Key: KeyString(dims), Per: int64(time.Unix(0, row.TS).Sub(Epoch) / tick), Vals: map[string]float64{}, Dims: dims}
			for i, v := range row.Values {
				if i < len(names) {
					r.Vals[names[i]] = v
				}
			}
			rows = append(rows, r)
			return true, nil
		})
		stats = st
		return err
	}
	errCh := make(chan error, 1)
	go func() { errCh <- iterate() }()
	select {
	case err = <-errCh:
	case <-time.After(timeout + 5*time.Second):
		return nil, nil, fmt.Errorf("query did not return within %v", timeout+5*time.Second)
	}
	return rows, stats, err
}

// QueryOpts controls the context a query runs under (C13).
type QueryOpts struct {
	DeadlineMs int // 0: no deadline, < 0: already expired, > 0: expires after that many ms
	StallAtRow int // >= 0: the row callback, called for row StallAtRow (0-based), waits until the deadline has passed; -1: never
	StopAfter  int // > 0: the consumer says "no more" after that many rows
}

// RawQueryOpts runs sql under the given options and returns rows, statistics and error.
func (n *Node) RawQueryOpts(sql string, includeMem bool, o QueryOpts) ([]RawRow, interface{}, error) {
	src, err := n.DB.Query(sql, false, nil, includeMem)
	if err != nil {
		return nil, nil, err
	}
	ctx := context.Background()
	var deadline time.Time
	if o.DeadlineMs != 0 {
		deadline = time.Now().Add(time.Duration(o.DeadlineMs) * time.Millisecond)
		var cancel context.CancelFunc
		ctx, cancel = context.WithDeadline(ctx, deadline)
		defer cancel()
	}
	var names []string
	var rows []RawRow
	var stats interface{}
	tick := n.Opts.Tick()
	iterate := func() error {
		st, err := src.Iterate(ctx, func(f core.Fields) error {
			names = f.Names()
			return nil
		}, func(row *core.FlatRow) (bool, error) {
			if o.StallAtRow >= 0 && len(rows) == o.StallAtRow && !deadline.IsZero() {
				if d := time.Until(deadline); d > 0 {
					time.Sleep(d)
				}
				time.Sleep(15 * time.Millisecond)
			}
			dims := bytemap.ByteMap(row.Key).AsMap()
			r := RawRow{Key: KeyString(dims), Per: int64(time.Unix(0, row.TS).Sub(Epoch) / tick), Vals: map[string]float64{}, Dims: dims}
			for i, v := range row.Values {
				if i < len(names) {
					r.Vals[names[i]] = v
				}
			}
			rows = append(rows, r)
			return o.StopAfter <= 0 || len(rows) < o.StopAfter, nil
		})
		stats = st
		return err
	}
	errCh := make(chan error, 1)
	go func() { errCh <- iterate() }()
	select {
	case err = <-errCh:
	case <-time.After(30 * time.Second):
		return nil, nil, fmt.Errorf("query did not return within 30s")
	}
	return rows, stats, err
}
