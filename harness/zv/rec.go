package zv

import (
	"encoding/json"
	"os"
	"path/filepath"
	"sort"
	"strings"
	"sync"

	"github.com/getlantern/wal"
	"github.com/getlantern/zenodb"
	"github.com/getlantern/zenodb/common"
)

// Recorder writes every hook event of a free-running process as one ndjson line
// (one write per line: whatever was logged before a SIGKILL is on disk), in the
// vocabulary lib/pipe_checks.py turns into a trace for spec/TracePipe.tla.
type Recorder struct {
	mu   sync.Mutex
	f    *os.File
	seq  int
	life string // identifies this process among the incarnations on the directory
	base string // the database directory
}

// RecordTo installs a recording hook; call before the database is opened.
func RecordTo(path, life, base string) (*Recorder, error) {
	f, err := os.OpenFile(path, os.O_CREATE|os.O_WRONLY|os.O_TRUNC, 0644)
	if err != nil {
		return nil, err
	}
	r := &Recorder{f: f, life: life, base: base}
	zenodb.VerifHook = r.hook
	return r, nil
}

func recOffs(o common.OffsetsBySource) [][3]int64 {
	out := make([][3]int64, 0, len(o))
	for s, off := range o {
		if off == nil {
			continue
		}
		out = append(out, [3]int64{int64(s), off.FileSequence(), off.Position()})
	}
	sort.Slice(out, func(i, j int) bool { return out[i][0] < out[j][0] })
	return out
}

func recOff(o wal.Offset) [2]int64 {
	if o == nil {
		return [2]int64{0, 0}
	}
	return [2]int64{o.FileSequence(), o.Position()}
}

func (r *Recorder) hook(ev string, kv ...interface{}) {
	if ev == "wal.cap" || ev == "fol.timer" || len(kv) == 0 {
		return
	}
	name, _ := kv[0].(string)
	if strings.HasPrefix(name, "@") {
		return
	}
	m := map[string]interface{}{"ev": ev, "t": name + "#" + r.life, "dir": filepath.Join(r.base, name)}
	switch ev {
	case "tbl.read", "tbl.verdict":
		m["off"] = recOff(kv[1].(wal.Offset))
		m["src"] = kv[2].(int)
	case "rs.offer":
		m["off"] = recOff(kv[1].(wal.Offset))
		m["src"] = kv[2].(int)
		m["kind"] = kv[3].(int)
	case "rs.apply":
		m["off"] = recOff(kv[1].(wal.Offset))
		m["src"] = kv[2].(int)
		m["key"] = kv[3].(bool)
	case "rs.open":
		m["file"] = kv[1].(string)
		m["offs"] = recOffs(kv[2].(common.OffsetsBySource))
	case "off.written":
		m["offs"] = recOffs(kv[1].(common.OffsetsBySource))
		e, _ := kv[2].(error)
		m["err"] = e != nil
	case "off.temp":
		m["offs"] = recOffs(kv[2].(common.OffsetsBySource))
	case "flush.begin":
		m["n"] = kv[1]
		m["noraw"] = kv[2]
		m["sorted"] = kv[3]
		m["file"] = kv[4].(string)
		m["offs"] = recOffs(kv[5].(common.OffsetsBySource))
	case "flush.temp":
		m["rows"] = kv[2]
	case "flush.renamed":
		m["file"] = kv[1].(string)
		m["offs"] = recOffs(kv[2].(common.OffsetsBySource))
	case "flush.swapped", "flush.done":
		m["file"] = kv[1].(string)
	case "iter.start":
		m["file"] = kv[1].(string)
		m["mem"] = kv[2].(bool)
	case "old.remove":
		m["file"] = kv[1].(string)
	}
	r.mu.Lock()
	r.seq++
	m["seq"] = r.seq
	b, _ := json.Marshal(m)
	r.f.Write(append(b, '\n'))
	r.mu.Unlock()
}
