// Package zv is the conformance harness that binds the TLA+ specifications
// in /verif/spec to the real zenodb code (built with -tags verif).
package zv

import (
	"encoding/json"
	"fmt"
	"math"
	"sort"
	"strings"
	"time"
)

// Epoch is tick 0 of every scenario. It is a multiple of every resolution the
// drivers use (counted from the zero time.Time, which is what Time.Round uses).
var Epoch = time.Date(2020, 1, 1, 0, 0, 0, 0, time.UTC)

// Value decodes the small typed-value language the generators use for
// dimensions and values:
//
//	1, 1.5, "s", true, null            JSON scalars (numbers become float64)
//	{"$":"int","v":3}                  Go int
//	{"$":"ints","v":[1,2]}             []int
//	{"$":"floats","v":[1,2]}           []float64
//	{"$":"time","v":5}                 time.Time at tick 5
//	{"$":"f32","v":1.5} {"$":"i64","v":3} {"$":"u8","v":3} ...
func Value(raw json.RawMessage, tick time.Duration) (interface{}, error) {
	var v interface{}
	if err := json.Unmarshal(raw, &v); err != nil {
		return nil, err
	}
	return conv(v, tick)
}

func conv(v interface{}, tick time.Duration) (interface{}, error) {
	m, ok := v.(map[string]interface{})
	if !ok {
		return v, nil
	}
	t, _ := m["$"].(string)
	num := func() float64 { f, _ := m["v"].(float64); return f }
	switch t {
	case "int":
		return int(num()), nil
	case "i64":
		return int64(num()), nil
	case "i32":
		return int32(num()), nil
	case "i16":
		return int16(num()), nil
	case "i8":
		return int8(num()), nil
	case "u8":
		return uint8(num()), nil
	case "u16":
		return uint16(num()), nil
	case "u32":
		return uint32(num()), nil
	case "u64":
		return uint64(num()), nil
	case "uint":
		return uint(num()), nil
	case "f32":
		return float32(num()), nil
	case "time":
		return Epoch.Add(time.Duration(num() * float64(tick))), nil
	case "ints":
		arr, _ := m["v"].([]interface{})
		out := make([]int, 0, len(arr))
		for _, e := range arr {
			f, _ := e.(float64)
			out = append(out, int(f))
		}
		return out, nil
	case "floats":
		arr, _ := m["v"].([]interface{})
		out := make([]float64, 0, len(arr))
		for _, e := range arr {
			f, _ := e.(float64)
			out = append(out, f)
		}
		return out, nil
	}
	return nil, fmt.Errorf("unknown typed value %v", m)
}

// ValueMap decodes a JSON object of typed values.
func ValueMap(raw map[string]json.RawMessage, tick time.Duration) (map[string]interface{}, error) {
	out := make(map[string]interface{}, len(raw))
	for k, r := range raw {
		v, err := Value(r, tick)
		if err != nil {
			return nil, err
		}
		out[k] = v
	}
	return out, nil
}

// KeyString is the canonical printable form of a group key: sorted
// name=value pairs. Generators compute the same strings independently.
func KeyString(m map[string]interface{}) string {
	names := make([]string, 0, len(m))
	for k := range m {
		names = append(names, k)
	}
	sort.Strings(names)
	parts := make([]string, 0, len(names))
	for _, k := range names {
		parts = append(parts, fmt.Sprintf("%s=%v", k, fmtVal(m[k])))
	}
	return strings.Join(parts, ",")
}

func fmtVal(v interface{}) string {
	switch x := v.(type) {
	case nil:
		return "<nil>"
	case time.Time:
		return fmt.Sprintf("T%d", x.Sub(Epoch)/time.Second)
	case float64:
		if x == math.Trunc(x) && math.Abs(x) < 1e15 {
			return fmt.Sprintf("%d", int64(x))
		}
		return fmt.Sprintf("%g", x)
	case float32:
		return fmtVal(float64(x))
	}
	return fmt.Sprintf("%v", v)
}

// Digits decodes the bag-of-ids observable: point i carries the value 4^i in
// every decodable SUM field, so the base-4 digits of a cell are the
// multiplicities of the points in it. ok is false if v is not a non-negative
// integer below 4^26.
func Digits(v float64) (ids []int, counts []int, ok bool) {
	if v < 0 || v != math.Trunc(v) || v >= math.Pow(4, 26) || math.IsNaN(v) {
		return nil, nil, false
	}
	n := uint64(v)
	for i := 0; n > 0; i++ {
		d := int(n & 3)
		if d > 0 {
			ids = append(ids, i)
			counts = append(counts, d)
		}
		n >>= 2
	}
	return ids, counts, true
}
