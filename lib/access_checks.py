"""C19 (spec/Access.tla): every distinct state of the access specification is
replayed, with a shortest history reaching it, on a real rpc server and a real
web handler by zvaccess."""
import json, os, re, shutil, subprocess, time
import common
from common import Verdict, InfraError
from tla import run_tlc, tla


def access_batches(workdir, max_now, session_len, max_steps, shipped=False, timeout=900):
    mod = "---- MODULE AccessMC ----\nEXTENDS Access\n====\n"
    cfg = ("SPECIFICATION Spec\nCONSTANTS MaxNow = %d SessionLen = %d MaxSteps = %d Shipped = %s\nVIEW view\n"
           "INVARIANTS Emit DesignSafe OnlyVerifiedSessions\nCHECK_DEADLOCK FALSE\n" % (max_now, session_len, max_steps, tla(shipped)))
    r = run_tlc(mod, "AccessMC", cfg, workdir, workers=1, timeout=timeout)
    batches = []
    for m in re.finditer(r'<<"ZVACC", "(.*)">>', r.out):
        b = json.loads(json.loads('"' + m.group(1) + '"'))
        b["id"] = len(batches)
        batches.append(b)
    return r, batches


def check_C19(args):
    t0 = time.time()
    pid = "C19"
    V = Verdict(pid)
    quick = common.tier() == "quick"
    bins = common.build(("zvaccess",))
    work = common.scratch(pid)
    try:
        if args.replay:
            rp = json.load(open(args.replay))
            batches = [rp["batch"]]
            states = transitions = 1
        else:
            consts = (2, 1, 5) if quick else (4, 2, 8)
            r, batches = access_batches(os.path.join(work, "mc"), *consts)
            if r.violated:
                V.notes.append("model: %s violated in spec/Access.tla (the model of the code departs from the statement)" % r.violated)
            elif not r.ok:
                open(os.path.join(common.SCRATCH_ROOT, "last_tlc_failure.out"), "w").write(r.out)
                raise InfraError("Access model checking did not finish:\n" + r.out[-2000:])
            states, transitions = r.distinct, r.generated
            if len(batches) != states:
                raise InfraError("exported %d batches for %d distinct states" % (len(batches), states))
            # the model of the shipped code must be rejected by TLC (the specification can tell the difference)
            r2, _ = access_batches(os.path.join(work, "mc-shipped"), 1, 1, 3, shipped=True)
            shipped_rejected = bool(r2.violated)
            print("[%s] TLC: %d distinct states, %d generated (MaxNow, SessionLen, MaxSteps = %s); shipped-code model rejected: %s"
                  % (pid, states, transitions, consts, shipped_rejected), flush=True)
        inp = "".join(json.dumps(b) + "\n" for b in batches)
        sdir = os.path.join(work, "run")
        p = subprocess.run([bins["zvaccess"], "-scratch", sdir], input=inp, stdout=subprocess.PIPE, stderr=subprocess.PIPE, text=True,
                           timeout=3000)
        if p.returncode != 0:
            raise InfraError("zvaccess exited %d: %s" % (p.returncode, p.stderr[-2000:]))
        results = [json.loads(l) for l in p.stdout.splitlines() if l.startswith("{")]
        by_id = {b["id"]: b for b in batches}
        n_req = n_refuse = n_serve = n_either = drift = denied_legit = skipped = other = 0
        n_login = 0
        seen_kinds = set()
        notes = set()
        samples = []
        for res in results:
            b = by_id[res["id"]]
            for n in res.get("notes") or []:
                notes.add(n[:160])
            for lg in (res.get("logins") or []) + (res.get("attempts") or []):
                n_login += 1
                seen_kinds.add("login:%s:%s:%s" % (lg["tok"], lg["state"], lg["issued"]))
                if lg["issued"] and not lg["mustIssue"]:
                    key = "login-%s-%s-%s" % (lg["tok"], lg["state"], b["github"])
                    rp = common.save_replay(pid, key, {"batch": b, "login": lg})
                    V.violation(rp, "a session cookie was issued to access token '%s' (state parameter %s) while GitHub's membership API was '%s' and the "
                                    "members were %s: the session is not a verified one" % (lg["tok"], lg["state"], b["github"], b["inOrg"]))
                elif lg["issued"] != lg["modelIssued"]:
                    drift += 1
            for h in (res.get("http") or []) + (res.get("rpc") or []):
                if "skipped" in h:
                    skipped += 1
                    continue
                n_req += 1
                what = ("rpc %s with %s password" % (h["ep"], h["pw"])) if "pw" in h else \
                       ("http /%s with %s static token and %s" % (h["ep"], h["hdr"], ck_text(h["ck"])))
                kind = re.sub(r"'exp': \d+, ", "", what)
                seen_kinds.add(kind + "->" + h["observed"])
                if h["observed"] == "other":
                    other += 1
                    notes.add("unexpected answer to %s: status %s %s" % (what, h.get("status"), (h.get("body") or h.get("err") or "")[:100]))
                    continue
                n_refuse += h["must"] == "refuse"
                n_serve += h["must"] == "serve"
                n_either += h["must"] == "either"
                if h["must"] == "refuse" and h["observed"] == "serve":
                    key = re.sub(r"[^a-z0-9]+", "-", kind.lower())[:80]
                    cfg = b["cfg"]
                    rp = common.save_replay(pid, key, {"batch": dict(b, http=[x for x in b["http"] if same_req(x, h)] if "hdr" in h else [],
                                                                     rpc=[x for x in b["rpc"] if same_req(x, h)] if "pw" in h else []), "request": h})
                    if h.get("viaRenewedCookie"):
                        what += " (refused at first, but the refusal set a fresh session cookie, and the same request with that cookie"
                        what += " is served)"
                    V.violation(rp, "%s was served data (%s) although it must be refused; configuration %s, history %s"
                                % (what, h.get("leaked") or ("%s rows" % h.get("rows")) if "rows" in h or "leaked" in h else "status %s" % h.get("status"),
                                   cfg, [s["a"] + (":" + s.get("tok", "") if s.get("tok") else "") for s in b["hist"]]))
                elif h["must"] == "serve" and h["observed"] == "refuse":
                    denied_legit += 1      # not demanded by the statement: reported, never a violation
                elif h["observed"] != h["decide"]:
                    drift += 1
            if len(samples) < 2 and res.get("http") and len(b["hist"]) >= 3 - len(samples):
                samples.append({"cfg": b["cfg"], "history": b["hist"], "first_requests": res["http"][:3]})
        rpc_seen = sum(1 for r_ in results if r_.get("rpc"))
        if n_req == 0 or (not args.replay and rpc_seen < 2):
            raise InfraError("zvaccess answered %d requests, %d rpc batches" % (n_req, rpc_seen))
        # de-duplicate violations by request kind
        uniq = {}
        for rp, text in V.violations:
            uniq.setdefault(rp, text)
        V.violations = list(uniq.items())
        if denied_legit:
            V.notes.append("%d requests with valid credentials were refused (not demanded by the statement; not a violation)" % denied_legit)
        if drift:
            V.notes.append("%d decisions differ from the specification's model of the code but are inside what the statement allows" % drift)
        for n in sorted(notes)[:10]:
            V.notes.append(n)
        cov = {"states": states, "transitions": transitions, "traces_validated_against_impl": sum(1 for r_ in results if "http" in r_),
               "requests_replayed": n_req, "must_refuse": int(n_refuse), "must_serve": int(n_serve), "latitude": int(n_either),
               "login_flows": n_login, "skipped_requests": skipped, "unexpected_answers": other,
               "distinct_request_kinds_observed": len(seen_kinds),
               "valid_credentials_refused": denied_legit, "model_drift": drift,
               "samples": samples, "exhaustive": True}
        if not args.replay:
            cov["shipped_code_model_rejected_by_TLC"] = shipped_rejected
        rc = V.finish()
        common.write_evidence(pid, "model_checking", cov,
                              ["GitHub is a stub http.DefaultTransport (token exchange and organisation API); the session cookie keys are supplied through web.Opts",
                               "clock ticks are emulated by presenting the issued session re-encoded with an earlier expiration (session length = 1 h = SessionLen ticks)",
                               "data served = HTTP 200/202 from a query endpoint, rows / a WAL entry / the text of a cluster query received over rpc",
                               "the cryptographic strength of the cookie is not examined (forged = signed with other keys)",
                               "a request with valid credentials that is refused is not a violation of the statement"],
                              time.time() - t0, len(V.violations))
        if other > n_req // 20:
            print("too many unexpected answers (%d of %d)" % (other, n_req))
            return rc or 2
        return rc
    finally:
        shutil.rmtree(work, ignore_errors=True)


def ck_text(ck):
    if ck["kind"] != "session":
        return {"none": "no cookie", "forged": "a forged cookie"}[ck["kind"]]
    return "a well-signed session of '%s' (%s)" % (ck["tok"], "expired" if ck["expired"] else "not expired")


def same_req(x, h):
    return all(x.get(k) == h.get(k) for k in ("ep", "hdr", "pw", "ck"))


CHECKS = {"C19": check_C19}
