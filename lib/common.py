"""Shared machinery of the checks: building the harness from /repo's working
tree, running scenario shards, TLC trace validation, evidence and verdicts."""
import json, os, random, re, shutil, subprocess, sys, time, hashlib, tempfile
from concurrent.futures import ThreadPoolExecutor

VERIF = os.path.dirname(os.path.dirname(os.path.abspath(__file__)))
REPO = os.environ.get("ZV_REPO", "/repo")
BUILD = os.path.join(VERIF, ".build")
SCRATCH_ROOT = os.environ.get("ZV_SCRATCH", os.path.join(VERIF, ".scratch"))
GOENV = dict(os.environ, GOFLAGS="-mod=mod", GOPROXY="off", GOSUMDB="off", GOTOOLCHAIN="local",
             GOCACHE=os.environ.get("GOCACHE", os.path.join(os.path.expanduser("~"), ".cache", "go-build")))
NPROC = int(os.environ.get("ZV_NPROC", str(os.cpu_count() or 8)))


class InfraError(Exception):
    pass


def seed():
    try:
        return int(os.environ.get("VERIF_SEED", "1"))
    except ValueError:
        return 1


def tier():
    return os.environ.get("VERIF_TIER", "quick")


def build(cmds=("zvstore",)):
    """(Re)builds the harness binaries against /repo's current working tree."""
    os.makedirs(BUILD, exist_ok=True)
    h = os.path.join(VERIF, "harness")
    gomod = open(os.path.join(h, "go.mod")).read()
    want = "replace github.com/getlantern/zenodb => %s" % REPO
    if want not in gomod:
        lines = [l for l in gomod.splitlines() if not l.startswith("replace github.com/getlantern/zenodb")]
        open(os.path.join(h, "go.mod"), "w").write("\n".join(lines + [want]) + "\n")
    shutil.copy(os.path.join(REPO, "go.sum"), os.path.join(h, "go.sum"))
    out = {}
    for c in cmds:
        dst = os.path.join(BUILD, c)
        p = subprocess.run(["go", "build", "-tags", "verif", "-o", dst, "./cmd/" + c], cwd=h, env=GOENV,
                           stdout=subprocess.PIPE, stderr=subprocess.STDOUT, text=True)
        if p.returncode != 0:
            raise InfraError("go build %s failed:\n%s" % (c, p.stdout))
        out[c] = dst
    return out


def scratch(name):
    d = os.path.join(SCRATCH_ROOT, "%s.%d" % (name, os.getpid()))
    shutil.rmtree(d, ignore_errors=True)
    os.makedirs(d)
    return d


def _limit_memory(gb):
    def f():
        import resource
        resource.setrlimit(resource.RLIMIT_AS, (gb << 30, gb << 30))
    return f


def run_shards(binary, scenarios, workdir, nproc=None, timeout=900, args=(), mem_gb=None, streaming=False):
    """Runs the scenarios through `binary', split over nproc processes; returns
    the concatenated trace lines (parsed) per scenario id, in scenario order."""
    nproc = min(nproc or NPROC, max(1, len(scenarios)))
    shards = [scenarios[i::nproc] for i in range(nproc)]
    if tier() == "thorough":
        timeout *= 4          # (hundreds of scenarios per shard, possibly on a busy machine)

    def one(i):
        sdir = os.path.join(workdir, "shard%d" % i)
        todo = list(shards[i])
        out = ""
        while todo:
            os.makedirs(sdir, exist_ok=True)
            inp = "\n".join(json.dumps(s) for s in todo) + "\n"
            try:
                p = subprocess.run([binary, "-scratch", sdir] + list(args), input=inp, stdout=subprocess.PIPE,
                                   stderr=subprocess.PIPE, text=True, timeout=timeout,
                                   preexec_fn=_limit_memory(mem_gb) if mem_gb else None)
            except subprocess.TimeoutExpired:
                shutil.rmtree(sdir, ignore_errors=True)
                raise InfraError("%s did not finish %d scenarios within %d s" % (binary, len(todo), timeout))
            shutil.rmtree(sdir, ignore_errors=True)
            if p.returncode == 0:
                out += p.stdout
                break
            # the process died: a panic inside the database (a goroutine of
            # zenodb) takes the harness with it.  Keep what finished, attribute
            # the crash to the scenario that was running, carry on with the rest.
            # traces are flushed when a scenario ends: everything on stdout is
            # complete, the first scenario without a trace is the one that was running
            done = set(json.loads(l)["scn"] for l in p.stdout.splitlines() if l.startswith('{"a":"Reset"'))
            partial = None
            if streaming:
                # the binary writes as it goes and closes every scenario with an End line:
                # the scenario that was begun and not ended is the one that was running
                ended = set(json.loads(l)["scn"] for l in p.stdout.splitlines() if l.startswith('{"a":"End"'))
                partial = next((x for x in done if x not in ended), None)
                done = ended
            m = re.search(r"^(?:panic|fatal error): (.*)$", p.stderr, re.M)
            rest = [s["scn"] for s in todo if s["scn"] not in done]
            if not m or not rest:
                open(os.path.join(SCRATCH_ROOT, "last_crash.err"), "w").write(p.stderr)
                raise InfraError("%s exited %d: %s" % (binary, p.returncode, p.stderr[-2000:]))
            culprit = rest[0]
            frames = re.findall(r"^\s+(/\S+\.go):\d+", p.stderr, re.M)
            first = next((f for f in frames if "/runtime/" not in f and "/src/" not in f), "")
            in_db = first.startswith(REPO + "/") or "/getlantern/" in first
            out += p.stdout
            if culprit != partial:
                out += json.dumps({"a": "Reset", "scn": culprit}) + "\n"
            out += json.dumps({"a": "ProcessCrash", "scn": culprit, "panic": m.group(1), "in_database_code": in_db,
                               "top_frame": first, "stderr_tail": p.stderr[-1500:],
                               "stderr_full": p.stderr[:6000]}) + "\n"
            idx = [s["scn"] for s in todo].index(culprit)
            todo = todo[idx + 1:]
        return out

    with ThreadPoolExecutor(nproc) as ex:
        outs = list(ex.map(one, range(nproc)))
    traces = {}
    cur = None
    for o in outs:
        for line in o.splitlines():
            if not line.startswith("{"):
                continue      # the database prints a few diagnostics to stdout
            rec = json.loads(line)
            if rec.get("a") == "Reset":
                cur = rec["scn"]
                traces[cur] = []
            traces[cur].append(rec)
    return traces


def write_evidence(pid, level, coverage, assumptions, wall, violations, tier_=None):
    os.makedirs(os.path.join(VERIF, "evidence"), exist_ok=True)
    ev = {"property_id": pid, "tier": tier_ or tier(), "seed": seed(), "level": level,
          "coverage": coverage, "assumptions": assumptions, "wall_s": round(wall, 2),
          "violations": violations}
    with open(os.path.join(VERIF, "evidence", pid + ".json"), "w") as f:
        json.dump(ev, f, indent=1, sort_keys=True)
    return ev


def known_findings():
    p = os.path.join(VERIF, "known_findings.json")
    if not os.path.exists(p):
        return {"findings": [], "fixed": []}
    return json.load(open(p))


def save_replay(pid, name, payload):
    d = os.path.join(VERIF, "replays")
    os.makedirs(d, exist_ok=True)
    p = os.path.join(d, "%s-%s.json" % (pid, name))
    with open(p, "w") as f:
        json.dump(payload, f, indent=1)
    return p


class Verdict:
    """Collects what a check found and turns it into the exit protocol."""

    def __init__(self, pid):
        self.pid = pid
        self.violations = []   # (replay path, text)
        self.known = []        # text
        self.notes = []

    def violation(self, replay, text):
        self.violations.append((replay, text))

    def listed(self, key):
        """Text of the finding `key' of this property in known_findings.json, or None."""
        for f in known_findings().get("findings", []):
            if f.get("property") == self.pid and f.get("key") == key:
                return "%s: %s" % (key, f["what"])
        return None

    def known_finding(self, text):
        if text not in self.known:
            self.known.append(text)

    def finish(self):
        for k in self.known:
            print("KNOWN-FINDING: property=%s %s" % (self.pid, k))
        for n in self.notes:
            print("NOTE: " + n)
        for rp, text in self.violations[:20]:
            print("VIOLATION property=%s replay=%s" % (self.pid, rp))
            print("  " + text)
        return 1 if self.violations else 0
