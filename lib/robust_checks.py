"""C16 (spec/Robust.tla): the abstract input space enumerated by TLC is
rendered as concrete SQL strings and insert payloads and submitted to the real
entry points by zvrobust, interleaved with valid points and probes."""
import base64, json, os, random, re, shutil, struct, time
import common
from common import Verdict, InfraError
from pure_checks import gen_cases
from tla import run_tlc
from storelib import KEYS as KEYS_, CLUSTER_KEYS as CLUSTER_KEYS_, STREAM as STREAM_

GAP = ("far_future", "ancient_ts")

BASE = {
    "plain": "SELECT f, g FROM t",
    "grouped": "SELECT f FROM t GROUP BY a, period(2s)",
    "timerange": "SELECT f FROM t ASOF '-20s' UNTIL '-1s' GROUP BY b",
    "having": "SELECT f FROM t GROUP BY a HAVING f > 2",
    "fromsub": "SELECT f FROM (SELECT f, g FROM t GROUP BY a, b) GROUP BY a",
    "insub": "SELECT f FROM t WHERE a IN (SELECT a FROM u WHERE a = 'valid') GROUP BY a",
    "crosstab": "SELECT f FROM t GROUP BY a, CROSSTAB(b)",
    "dimfuncs": "SELECT f FROM t WHERE LEN(b) = 1 GROUP BY CONCAT('_', a, b) AS ab, SUBSTR(b, 0, 1) AS b1",
    "shift": "SELECT SHIFT(f, '-2s') AS sh, f FROM t GROUP BY a",
    "percentile": "SELECT PERCENTILE(pc, 50) AS p50, f FROM t GROUP BY a",
    "bounded_if": "SELECT IF(b = 'x', f) AS fx, BOUNDED(g, 0, 10) AS gb, f / g AS ratio FROM t GROUP BY a",
    "order_limit": "SELECT f FROM t GROUP BY a ORDER BY f DESC, _time LIMIT 1, 2",
    "stride": "SELECT f FROM t GROUP BY a, period(1s), stride(2s)",
}
LESS = ["SUM()", "IF(b = 'x')", "BOUNDED(g)", "SHIFT(f)", "PERCENTILE(pc)", "CROSSHIFT(f)", "WAVG(f)", "SUBSTR(b)", "BOUNDED(g, 1)", "IF()", "AVG()", "LEN()"]
MORE = ["SUM(f, g)", "IF(b = 'x', f, g, f)", "BOUNDED(g, 0, 1, 2, 3)", "SHIFT(f, '-1s', '-2s')", "PERCENTILE(pc, 1, 2, 3, 4, 5, 6)", "CROSSHIFT(f, '1s', '-1s', 3)",
        "WAVG(f, g, g)", "MIN(f, f)", "COUNT(f, g, f)"]
ASSTR = ["SUM('abc')", "SHIFT(f, 5)", "SHIFT(f, 'notaduration')", "BOUNDED(g, 'a', 'b')", "PERCENTILE(pc, 'x')", "IF(5, f)", "IF('x', f)",
         "CROSSHIFT(f, 'x', 'y')", "PERCENTILE(f, 99, 'lo', 'hi', 'p')", "PERCENTILE(f, 99, 0, 100, 99)", "WAVG('a', 'b')", "f + 'a'", "f / 0", "SHIFT(f, '')"]
ASFIELD = ["IF(f, g)", "SHIFT('-1s', f)", "BOUNDED(0, g, 10)", "SUM(b)", "IF(f > g, f)", "PERCENTILE(50, pc)", "SHIFT(SHIFT(f, '-1s'), '-1s')", "CROSSHIFT(f, f, f)", "IF(a, b)"]
ASSTAR = ["SUM(*)", "COUNT(*)", "IF(*, f)", "SHIFT(*, '-1s')", "BOUNDED(*, 0, 1)", "PERCENTILE(*, 5)", "f + *"]


def sel_add(s, call, alias="zz"):
    """Adds a call to the select list of the outermost query."""
    return re.sub(r"^SELECT ", "SELECT %s AS %s, " % (call, alias), s, count=1)


def apply_op(s, op, v):
    pick = lambda lst: lst[v % len(lst)]
    if op == "none":
        return s
    if op == "drop_from":
        return s.replace(" FROM t", "", 1) if v % 2 == 0 else s.replace(" FROM ", " ", 1)
    if op == "drop_select":
        return re.sub(r"^SELECT .*? FROM", pick(["SELECT FROM", "FROM", "SELECT , FROM"]), s, count=1)
    if op == "dup_where":
        return s.replace(" GROUP BY", " WHERE b = 'x' WHERE a = 'valid' GROUP BY", 1) if " GROUP BY" in s else s + " WHERE b = 'x' WHERE b = 'y'"
    if op == "reorder":
        m = re.search(r" GROUP BY .*$", s)
        return (s[:m.start()].replace(" FROM", m.group(0) + " FROM", 1)) if m else s.replace("SELECT", "FROM t SELECT", 1)
    if op == "truncate_half":
        return s[:max(3, len(s) * (1 + v % 3) // 4)]
    if op == "truncate_tail":
        return s[:-(1 + v % 4)]
    if op == "unbalanced_open":
        return s.replace("(", "((", 1) if "(" in s and v % 2 == 0 else s.replace("SELECT ", "SELECT (", 1)
    if op == "unbalanced_close":
        return s.replace(")", "))", 1) if ")" in s and v % 2 == 0 else s + ")"
    if op == "unknown_table":
        return s.replace("FROM t", "FROM " + pick(["nosuchtable", "T.t", "`t t`", "s"]))
    if op == "unknown_field":
        return re.sub(r"\bf\b", pick(["nofield", "w", "_nothing", "F2"]), s, count=1 + v % 2)
    if op == "unknown_func":
        return sel_add(s, pick(["NOSUCHFN(f)", "SQRT(f)", "PERIOD(f)", "CROSSTAB(f)", "NOW()", "RAND(f)"]))
    if op == "arity_less":
        return sel_add(s, pick(LESS)) if v % 3 else s.replace("period(2s)", "period()").replace("CROSSTAB(b)", "CROSSTAB()").replace("stride(2s)", "stride()") + ("" if "(" in s else " GROUP BY period()")
    if op == "arity_more":
        return sel_add(s, pick(MORE)) if v % 3 else s.replace("period(2s)", "period(1s, 2s)").replace("stride(2s)", "stride(2s, 4s)").replace("LEN(b)", "LEN(a, b)") + ("" if "(" in s else " GROUP BY period(1s, 2s)")
    if op == "argtype_string":
        return sel_add(s, pick(ASSTR))
    if op == "argtype_field":
        return sel_add(s, pick(ASFIELD))
    if op == "argtype_star":
        return sel_add(s, pick(ASSTAR))
    if op == "bad_duration":
        bad = pick(["period(abc)", "period('5x')", "period(-1s)", "period(1)", "period(999999h)", "period(1ns)", "period(1s2)"])
        return re.sub(r"period\([^)]*\)", bad, s) if "period(" in s else s + (", " if " GROUP BY" in s and " ORDER BY" not in s and " HAVING" not in s else " GROUP BY ") + bad if " ORDER BY" not in s and " HAVING" not in s else s.replace(" GROUP BY ", " GROUP BY " + bad + ", ", 1)
    if op == "bad_time":
        bad = pick(["ASOF '2020-13-45T99:00:00Z'", "ASOF 'yesterday'", "UNTIL '-'", "ASOF '-1s' UNTIL '-5s'", "ASOF '1h'", "ASOF '' UNTIL ''", "ASOF -5", "ASOF '-9999999h'"])
        return re.sub(r"ASOF '[^']*' UNTIL '[^']*'", bad, s) if "ASOF" in s else s.replace(" FROM t", " FROM t " + bad, 1)
    if op == "deep_nesting":
        n = [40, 300, 3000][v % 3]
        return s.replace(" f ", " " + "(" * n + "f" + ")" * n + " AS f ", 1) if " f " in s else sel_add(s, "(" * n + "g" + ")" * n)
    if op == "keyword_ident":
        return pick(["SELECT select FROM from WHERE where = 1", s.replace("FROM t", "FROM group"), s.replace(" f ", " order ", 1), sel_add(s, "f", "select"), s + " GROUP BY by"])
    if op == "quote_unclosed":
        return [s.replace("'x'", "'x", 1) if "'x'" in s else s + " WHERE b = 'x", s.replace("FROM t", "FROM `t", 1), s + ' WHERE b = "x',
                s.replace(" f ", " `f ", 1) if " f " in s else s + " ORDER BY `f", (s[:s.upper().index("FROM") + 5] if "FROM" in s.upper() else s + " FROM ") + "`"][v % 5]
    if op == "quote_escape":
        # escape characters and doubled quotes inside each kind of quoting: the quote check in
        # front of the parser and the parser's tokenizer must agree on where a quoted text ends
        bs = "\\"
        tail = s.split("FROM t", 1)[1] if "FROM t" in s else ""
        head = s.split("FROM t", 1)[0] if "FROM t" in s else s + " "
        return [head + "FROM `t" + bs + "`" + tail, head + "FROM `t" + bs + "``" + tail, head + "FROM `t" + bs + bs + "`" + tail, head + "FROM `t``" + tail,
                head + "FROM `t``u`" + tail, head + "FROM " + bs + "`t`" + tail, head + "FROM `" + bs + "`",
                s.replace("'x'", "'x" + bs + "'", 1) if "'x'" in s else s + " WHERE b = 'x" + bs + "'",
                s.replace("'x'", "'x" + bs + bs + "'", 1) if "'x'" in s else s + " WHERE b = 'x" + bs + bs + "'",
                s.replace("'x'", "'x''", 1) if "'x'" in s else s + " WHERE b = 'x''", s + ' WHERE b = "x' + bs + '"', s + ' WHERE b = "x""',
                s + " WHERE b = 'x" + bs + "' AND a = `y" + bs + "`", s + " WHERE `b" + bs + "` = 'x'", s + " ORDER BY `f" + bs + "`"][v % 15]
    if op == "huge_number":
        return pick([s + " LIMIT 99999999999999999999999", s.replace("f > 2", "f > 1e999"), sel_add(s, "f * 1e308 * 1e308"), s.replace("0, 10", "-1e400, 1e400"),
                     sel_add(s, "BOUNDED(f, 9223372036854775808, 9223372036854775809)")])
    if op == "negative_limit":
        return re.sub(r" LIMIT .*$", "", s) + pick([" LIMIT -1", " LIMIT 1, -2", " LIMIT -1, -1", " LIMIT 0", " LIMIT 1.5", " LIMIT 'a'"])
    if op == "unicode":
        return pick([s.replace("'x'", "'ünï☃'"), s.replace(" f ", " fé ", 1), s + " WHERE b = '\U0001f600'", sel_add(s, "f", "名前")])
    if op == "control_bytes":
        return pick([s.replace(" FROM", "\x00 FROM", 1), s.replace(" ", "\t\n", 3), s + "\x00", s.replace("'x'", "'x\x00y'"), "﻿" + s])
    if op == "stmt_sep":
        return s + pick(["; DROP TABLE t", ";", "; SELECT * FROM t", ";;", "; --"])
    if op == "comment":
        return pick([s.replace(" FROM", " /* c */ FROM", 1), s + " -- trailing", "/* open " + s, s.replace("SELECT", "SELECT /*+ hint */", 1), "-- only a comment"])
    if op == "comment_quote":
        # quotes and parentheses inside comments: whoever scans the text for clauses must not be fooled by
        # them (the parser keeps the comments that follow SELECT in the statement's text and drops the others)
        after_select = lambda c: s.replace("SELECT", "SELECT /* %s */" % c, 1)
        before_from = lambda c: s.replace(" FROM", " /* %s */ FROM" % c, 1)
        return [after_select("don't cache"), after_select('"x'), before_from("it's"), after_select("(from"), after_select("it's ("),
                before_from("(from"), after_select("`"), after_select("x' ) (")][v % 8]
    if op == "empty_in":
        return pick([s.replace(" FROM t", " FROM t WHERE a IN ()", 1), s.replace(" FROM t", " FROM t WHERE a IN (SELECT)", 1), s.replace(" FROM t", " FROM t WHERE a IN (SELECT a, b FROM u)", 1),
                     s.replace(" FROM t", " FROM t WHERE a IN (SELECT f FROM u)", 1), s.replace(" FROM t", " FROM t WHERE a NOT IN (SELECT a FROM u)", 1),
                     s.replace(" FROM t", " FROM t WHERE a IN (SELECT a FROM nosuch)", 1)])
    if op == "nested_aggregate":
        return sel_add(s, pick(["SUM(SUM(f))", "AVG(MAX(f))", "SUM(f + g)", "MIN(IF(b = 'x', f))", "SUM(SHIFT(f, '-1s'))", "COUNT(PERCENTILE(pc, 5))"]))
    if op == "agg_in_where":
        return s.replace(" FROM t", " FROM t WHERE " + pick(["SUM(f) > 1", "f > 1", "f", "a", "1", "'x'", "a = ", "NOT", "a = 'v' AND", "a BETWEEN 1 AND 2", "a LIKE", "a IS"]), 1)
    if op == "dim_in_select":
        return re.sub(r"^SELECT ", "SELECT " + pick(["a, ", "a AS f, ", "b + 1 AS bb, ", "_time, ", "_points AS a, "]), s, count=1)
    if op == "alias_clash":
        return sel_add(s, "g", pick(["f", "_points", "_having", "a", "_time", "_crosstab"]))
    if op == "zero_period":
        return re.sub(r"period\([^)]*\)", "period(0s)", s) if "period(" in s else s + " GROUP BY period(0s)" if " GROUP BY" not in s else s.replace(" GROUP BY ", " GROUP BY period(0s), ", 1)
    if op == "odd_period":
        bad = pick(["period(1500ms)", "period(3s), stride(2s)", "stride(1500ms)", "period(7s), period(2s)", "stride(-2s)", "stride(0s)"])
        return re.sub(r"period\([^)]*\)(, stride\([^)]*\))?", bad, s) if "period(" in s else s.replace(" GROUP BY ", " GROUP BY " + bad + ", ", 1) if " GROUP BY" in s else s + " GROUP BY " + bad
    if op == "lua_scalar":
        return s.replace(" FROM t", " FROM t WHERE " + pick(["LUA('return 1', 'k', 'a') = 1", "LUA('x', a, b) = 'y'", "LUA('x', ARRAY(a), 'z') = 1",
                                                             # the P prefix marks a function for pushdown: the same functions under another name
                                                             "PLUA('return 1', 1, 2) = 'x'", "PLUA('x', a, ARRAY(b)) = 'y'", "PSPLIT(a) = 'x'", "PLEN(1, 2) = 1",
                                                             "PCONCAT() = 'x'", "PSUBSTR(a, 'x', 'y') = 'z'", "PNOSUCH(a) = 1", "PP(a) = 1", "P(a) = 1", "ANY() = 1", "SPLIT(a) = 'x'", "DECODE(a) = 1",
                                                             "ARRAY(a) = 1", "CONCAT() = 'x'", "SUBSTR(a, 'x', 'y') = 'z'", "LEN(1, 2) = 1", "RAND(1) > 0"]), 1)
    if op == "subquery_in_select":
        return sel_add(s, pick(["(SELECT f FROM t)", "(SELECT 1)", "EXISTS (SELECT f FROM t)", "CASE WHEN f > 1 THEN 1 ELSE 2 END"]))
    if op == "join":
        return s.replace("FROM t", pick(["FROM t, u", "FROM t JOIN u ON t.a = u.a", "FROM t AS x", "FROM (SELECT f FROM t) AS y, t", "FROM", "FROM t t2 t3", "FROM (t)"]), 1)
    if op == "star_args":
        return pick([s.replace(" GROUP BY ", " GROUP BY *, *, ", 1) if " GROUP BY" in s else s + " GROUP BY *, *", re.sub(r"^SELECT ", "SELECT *, *, ", s), s.replace("SELECT f", "SELECT t.*", 1),
                     s + " ORDER BY *", s + " HAVING *"])
    raise KeyError(op)


OTHER = {
    "insert": ["INSERT INTO t (a, w) VALUES ('x', 1)", "INSERT INTO t SELECT * FROM t", "insert into t values (1)"],
    "update": ["UPDATE t SET f = 1", "UPDATE t SET f = f + 1 WHERE a = 'x'", "update t set"],
    "delete": ["DELETE FROM t", "DELETE FROM t WHERE a = 'x'", "delete t"],
    "union": ["SELECT f FROM t UNION SELECT f FROM u", "SELECT f FROM t UNION ALL SELECT g FROM t", "(SELECT f FROM t) UNION (SELECT f FROM t) ORDER BY f"],
    "set": ["SET x = 1", "SET NAMES utf8", "set"],
    "show": ["SHOW TABLES", "SHOW DATABASES", "DESCRIBE t"],
    "ddl": ["CREATE TABLE x (a int)", "DROP TABLE t", "ALTER TABLE t ADD COLUMN z int"],
    "empty": ["", "   ", "\n"],
    "garbage": ["\x00\x01\x02\xff\xfe", "SELECT" * 2000, "')(*&^%$#@!~`\"';--"],
    "multi": ["SELECT f FROM t; SELECT g FROM t", "SELECT f FROM t SELECT g FROM t", "SELECT SELECT f FROM FROM t"],
}


def bm_string(k, v):
    """One well-formed bytemap entry (string value): for raw payloads."""
    kb, vb = k.encode(), v.encode()
    return struct.pack("<H", len(kb)) + kb + b"\x0e" + struct.pack("<H", len(vb)) + vb


def raw_payload(cls, v, rng):
    good_d = bm_string("a", "oddraw") + bm_string("b", "x")
    good_v = struct.pack("<H", 1) + b"w" + b"\x0c" + struct.pack("<d", 1.0)
    if cls == "raw_garbage":
        return bytes(rng.getrandbits(8) for _ in range(5 + v * 7)), bytes(rng.getrandbits(8) for _ in range(3 + v * 5))
    if cls == "raw_truncated":
        return good_d[:len(good_d) - 1 - v % 5], good_v[:len(good_v) - 1 - v % 7]
    if cls == "raw_empty":
        return (b"", good_v) if v % 2 else (good_d, b"")
    if cls == "raw_swapped":
        return good_v, good_d
    if cls == "raw_lenbomb":
        return struct.pack("<H", 65535) + b"a", struct.pack("<H", 1) + b"w" + b"\x0c" + b"\x01"
    return good_d, good_v


def render_inputs(abstract, rng, variants):
    steps = []
    cnt = {}
    for a in abstract:
        if a["t"] == "sql":
            if a["kind"] == "select":
                for v in range(variants):
                    s = BASE[a["base"]]
                    for i, op in enumerate(a["ops"]):
                        # every use of an operator takes its next variant, so that all the variants of
                        # an operator are used whatever the number of renderings per input
                        cnt[op] = cnt.get(op, rng.randrange(60)) + 1
                        s = apply_op(s, op, cnt[op])
                    if v % 3 == 1:
                        s = s.lower() if v % 2 else s.replace("SELECT", "select").replace(" FROM ", "\nfrom ")
                    steps.append({"op": "sql", "sql": s, "abs": a})
            else:
                idx = int(a["base"][1:]) - 1
                steps.append({"op": "sql", "sql": OTHER[a["kind"]][idx], "abs": a})
        else:
            for _ in range(variants):
                # (consecutive variants per class and entry point, starting anywhere: the harness
                # derives sub-cases from the variant number modulo 2 and modulo 3)
                ck = a["class"] + "/" + a["via"]
                cnt[ck] = cnt.get(ck, rng.randrange(6)) + 1
                v = cnt[ck]
                st = {"op": "payload", "class": a["class"], "via": a["via"], "var": v, "abs": a}
                if a["via"] == "raw":
                    d, vv = raw_payload(a["class"], v, rng)
                    st["raw"], st["raw2"] = base64.b64encode(d).decode(), base64.b64encode(vv).decode()
                steps.append(st)
    return steps


def check_C16(args):
    t0 = time.time()
    pid = "C16"
    V = Verdict(pid)
    quick = common.tier() == "quick"
    rng = random.Random(common.seed() * 3571 + 16)
    bins = common.build(("zvrobust",))
    work = common.scratch(pid)
    try:
        if args.replay:
            rp = json.load(open(args.replay))
            scenarios = [rp["scenario"]]
            counts = []
            states = trans = 1
        else:
            # the state machine: whatever is submitted, alive and running stay TRUE and probes are exact
            mod = "---- MODULE RobustMC ----\nEXTENDS Robust\n====\n"
            cfg = "SPECIFICATION Spec\nCONSTANTS MaxSteps = 8 Sample = 1 Offset = 0\nINVARIANT Robust\nPROPERTY ProbeExact\nCHECK_DEADLOCK FALSE\n"
            r = run_tlc(mod, "RobustMC", cfg, os.path.join(work, "mc"), workers=4, timeout=600)
            if not r.ok:
                raise InfraError("Robust model checking failed:\n" + r.out[-1500:])
            states, trans = r.distinct, r.generated
            out = os.path.join(work, "inputs.ndjson")
            sample = 40 if quick else 2
            counts, wall = gen_cases("GenRobust", dict(MaxSteps=0, Sample=sample, Offset=common.seed() % sample), out, os.path.join(work, "gen"))
            abstract = [json.loads(l) for l in open(out) if l.strip()]
            steps = render_inputs(abstract, rng, 2 if quick else 4)
            rng.shuffle(steps)
            # a timestamp far from the data of its key makes the memstore allocate a slot
            # per period in between (D12): such payloads get a process of their own
            gap = [st for st in steps if st["op"] == "payload" and st["class"] in GAP]
            steps = [st for st in steps if not (st["op"] == "payload" and st["class"] in GAP)]
            print("[%s] %d abstract inputs (%s), %d concrete inputs in %.1fs" % (pid, len(abstract), counts, len(steps), wall), flush=True)
            scenarios = []
            per = 150
            for i in range(0, len(steps), per):
                chunk = steps[i:i + per]
                sc_steps = []
                for j, st in enumerate(chunk):
                    sc_steps.append(st)
                    if j % 10 == 9:
                        sc_steps.append({"op": "valid"})
                    if j % 50 == 49:
                        sc_steps.append({"op": "probe"})
                sc_steps += [{"op": "valid"}, {"op": "probe"}]
                for k, st in enumerate(sc_steps):
                    st["id"] = k
                scenarios.append({"scn": "r%d" % (i // per), "steps": sc_steps})
            for gi, st in enumerate(gap[:8 if quick else 40]):
                # the key already holds a point when the odd timestamp arrives
                gsteps = [{"op": "valid"}, {"op": "payload", "class": "valid", "via": "embedded", "var": st["var"]}, {"op": "probe"}, st,
                          {"op": "valid"}, {"op": "probe"}]
                for k, x in enumerate(gsteps):
                    x["id"] = k
                scenarios.append({"scn": "gap%d" % gi, "steps": gsteps, "gap": True})
        strip = lambda s: {"scn": s["scn"], "steps": [{k: v for k, v in st.items() if k != "abs"} for st in s["steps"]]}
        traces = common.run_shards(bins["zvrobust"], [strip(s) for s in scenarios if not s.get("gap")], os.path.join(work, "run"),
                                   nproc=min(8, max(1, len(scenarios))), timeout=2400, mem_gb=4, streaming=True)
        gaps = [s for s in scenarios if s.get("gap")]
        if gaps:
            # one process per scenario
            traces.update(common.run_shards(bins["zvrobust"], [strip(s) for s in gaps], os.path.join(work, "rungap"), nproc=min(8, len(gaps)), timeout=600, mem_gb=4, streaming=True))
        known_gap = V.listed("timestamp-gap-allocation")
        n_sql = n_pay = n_probe = n_valid = 0
        outcomes = {"sql.error": 0, "sql.plan": 0, "payload.error": 0, "payload.accepted": 0}
        kinds_seen = set()
        seen_viol = {}
        for sc in scenarios:
            lines = traces.get(sc["scn"], [])
            by_id = {st["id"]: st for st in sc["steps"]}
            herr = [l for l in lines if l["a"] == "HarnessError"]
            if herr:
                raise InfraError("zvrobust: %s" % herr[0])
            crash = [l for l in lines if l["a"] == "ProcessCrash"]
            results = {l["id"]: l for l in lines if l["a"] == "Result"}
            begun = [l["id"] for l in lines if l["a"] == "Begin"]
            if crash:
                c = crash[0]
                culprit = by_id.get(begun[-1]) if begun else None
                if "did not return within" in c["panic"]:
                    what = describe(culprit) if culprit else "?"
                    key = "hang:" + (culprit or {}).get("sql", "")[-12:]
                    if key not in seen_viol and len([k for k in seen_viol if k.startswith("hang:")]) < 4:
                        seen_viol[key] = 1
                        rp = common.save_replay(pid, "hang%d" % len(seen_viol), {"scenario": {"scn": "replay", "steps": [dict(culprit, id=0)] if culprit else sc["steps"]}, "panic": c})
                        V.violation(rp, "%s does not return within 45 s (a parser or planner loop): the caller is stalled" % what)
                    continue
                if not c["in_database_code"] and "zenodb" not in c.get("stderr_tail", ""):
                    raise InfraError("zvrobust crashed outside the database in %s: %s\n%s" % (sc["scn"], c["panic"], c["stderr_tail"]))
                what = describe(culprit) if culprit else "?"
                # (the goroutine that runs out of memory need not be the one that allocates the gap)
                if known_gap and "memory" in c["panic"] and any(st["op"] == "payload" and st["class"] in GAP for st in sc["steps"]):
                    V.known_finding(known_gap)
                    continue
                key = "crash:" + c["panic"][:60]
                if key not in seen_viol:
                    seen_viol[key] = 1
                    rp = common.save_replay(pid, "crash%d" % len(seen_viol), {"scenario": {"scn": "replay", "steps": [dict(culprit, id=0)] if culprit else sc["steps"]}, "panic": c})
                    V.violation(rp, "the process crashed (panic: %s at %s) while handling %s" % (c["panic"][:200], c["top_frame"], what))
            for sid, res in results.items():
                st = by_id[sid]
                if res["op"] == "sql":
                    n_sql += 1
                    kinds_seen.add(json.dumps([st["abs"]["kind"], st["abs"]["base"], st["abs"]["ops"]]) if "abs" in st else st["sql"][:30])
                    outcomes["sql.plan" if res.get("plan") else "sql.error"] += 1
                elif res["op"] == "payload":
                    n_pay += 1
                    kinds_seen.add(st["class"] + "/" + st["via"])
                    outcomes["payload.error" if "err" in res else "payload.accepted"] += 1
                elif res["op"] == "valid":
                    n_valid += 1
                    if "err" in res:
                        V.notes.append("%s: a valid insert was refused: %s" % (sc["scn"], res["err"]))
                if "panic" in res:
                    what = describe(st)
                    # one violation per panic site
                    site = re.sub(r"0x[0-9a-f]+", "", res["panic"].split(" @ ")[-1])[:160]
                    key = res["where"] + site
                    if key in seen_viol:
                        continue
                    seen_viol[key] = 1
                    rp = common.save_replay(pid, "panic%d" % len(seen_viol), {"scenario": {"scn": "replay", "steps": [dict({k: v for k, v in st.items()}, id=0)]}, "result": res})
                    V.violation(rp, "%s panics in %s: %s" % (what, res["where"], res["panic"][:300]))
                if res["op"] == "probe":
                    n_probe += 1
                    if int(res["got"]) != res["expected"]:
                        if known_gap and sc.get("gap"):
                            # D12 again: the row store is busy allocating the gap (gigabytes) or has
                            # run into the address-space limit without the runtime giving up yet
                            V.known_finding(known_gap)
                            continue
                        key = "stall"
                        if key not in seen_viol:
                            seen_viol[key] = 1
                            prev = [describe(by_id[i]) for i in sorted(by_id) if i < sid and by_id[i]["op"] in ("sql", "payload")][-50:]
                            rp = common.save_replay(pid, "stall-%s-%d" % (sc["scn"], sid), {"scenario": {"scn": "replay", "steps": [s for s in sc["steps"] if s["id"] <= sid]}, "result": res})
                            V.violation(rp, "%s: after the inputs before step %d only %s of %d valid points are ingested (the pipeline stalled or dropped them); the last inputs were %s"
                                        % (sc["scn"], sid, res["got"], res["expected"], prev[-3:]))
        # "... and replicated": odd payloads through the leader of an in-process cluster,
        # valid points after them; the partitions together must hold what a standalone
        # database fed the same points holds
        n_cluster = 0
        if not args.replay:
            from cluster_checks import cluster_tables
            from store_checks import rows_to_cells, diff_cells
            cbin = common.build(("zvcluster",))["zvcluster"]
            odd = [({"a": None, "b": "y"}, {"w": 1}), ({"b": True}, {"w": 1}), ({"a": "x", "b": None}, {"w": 1}),
                   ({"a": 1.5, "b": {"$": "time", "v": 3}}, {"w": 1}), ({"a": {"$": "u8", "v": 7}, "b": "y"}, {"w": "str"}),
                   ({"a": 1, "b": "y"}, {"w": None}), ({"a": 1, "b": "y"}, {"w": True}), ({"b": {"$": "floats", "v": [1, 2]}}, {"w": 1}),
                   ({"a": {"$": "ints", "v": [1]}, "b": "y"}, {"w": {"$": "ints", "v": []}}), ({}, {"w": 1}), ({"a": 1}, {}),
                   ({"a": {"$": "f32", "v": 1.5}, "b": ""}, {"w": {"$": "floats", "v": [1, 2, 3]}}), ({"a": {"$": "i64", "v": -1}, "b": "y"}, {"x": 1, "w": ""})]
            csc = []
            for ci in range(2 if quick else 8):
                tabs = cluster_tables(variant=ci % 6)
                P = rng.choice([2, 3])
                cmds = [{"a": "Connect", "f": "f%d_0" % p, "l": 0} for p in range(P)]
                pts = list(odd)
                rng.shuffle(pts)
                for i, (d, v) in enumerate(pts):
                    cmds.append({"a": "Insert", "l": 0, "ts": rng.randint(1, 4), "dims": d, "vals": v})
                    if i % 3 == 2:
                        k = rng.choice(CLUSTER_KEYS_)
                        cmds.append({"a": "Insert", "l": 0, "ts": rng.randint(1, 4), "dims": KEYS_[k], "vals": {"w": 4 ** (i // 3), "x": 4 ** (i // 3)}})
                cmds.append({"a": "Settle", "id": "s0"})
                csc.append({"scn": "rc%d" % ci, "opts": {"tickMs": 1000, "stream": STREAM_}, "tables": [t.define() for t in tabs],
                            "topo": {"leaders": 1, "partitions": P, "replicas": 1}, "cmds": cmds})
            ctr = common.run_shards(cbin, csc, os.path.join(work, "runc"), nproc=len(csc), timeout=900)
            for sc_ in csc:
                lines = ctr.get(sc_["scn"], [])
                crash = [l for l in lines if l["a"] == "ProcessCrash"]
                herr = [l for l in lines if l["a"] == "HarnessError"]
                n_cluster += 1
                if crash and crash[0]["in_database_code"]:
                    rp = common.save_replay(pid, sc_["scn"] + "-crash", {"cluster": sc_, "panic": crash[0]})
                    V.violation(rp, "%s: the cluster process crashed while odd payloads were replicated: panic: %s" % (sc_["scn"], crash[0]["panic"]))
                    continue
                if herr and "quiescence" in herr[0].get("err", ""):
                    rp = common.save_replay(pid, sc_["scn"] + "-stall", {"cluster": sc_, "error": herr[0]})
                    V.violation(rp, "%s: after odd payloads went through the leader the followers no longer catch up (%s)" % (sc_["scn"], herr[0]["err"]))
                    continue
                if herr or crash:
                    raise InfraError("zvcluster: %s" % (herr or crash)[0])
                views = {}
                for l in lines:
                    if l["a"] == "View" and l["at"] == "s0":
                        # (dimension values of different types can print alike - float32 / float64 1.5 -
                        # and then are different rows of one node: cells are added up, not overwritten)
                        cells = {}
                        for r_ in l["rows"]:
                            cells[(r_[0], r_[1], r_[2], r_[3])] = cells.get((r_[0], r_[1], r_[2], r_[3]), 0) + r_[4]
                        views.setdefault(l["t"], {})[l["node"]] = cells
                for tn, nodes in views.items():
                    total = {}
                    for node, cells in nodes.items():
                        if node != "standalone":
                            for k, c in cells.items():
                                total[k] = total.get(k, 0) + c
                    # several of these points carry the same value in one cell: the base-4 digits of
                    # a sum carry over, so the cells are compared by value, not digit by digit
                    def by_value(cells):
                        out = {}
                        for (k, p, f, digit), c in cells.items():
                            out[(k, p, f)] = out.get((k, p, f), 0) + c * 4 ** digit
                        return {k: v for k, v in out.items() if v}
                    d = diff_cells(by_value(total), by_value(nodes.get("standalone", {})))
                    if d:
                        k = sorted(d, key=repr)[0]
                        rp = common.save_replay(pid, sc_["scn"] + "-" + tn, {"cluster": sc_, "diff": [[list(x), d[x]] for x in sorted(d, key=repr)][:10]})
                        V.violation(rp, "%s: after odd payloads the partitions of table %s together differ from the standalone database, e.g. %s cluster/standalone %s"
                                    % (sc_["scn"], tn, list(k), d[k]))
        if n_sql + n_pay == 0:
            raise InfraError("zvrobust produced no results")
        cov = {"evaluations": n_sql + n_pay, "distinct_nontrivial": len(kinds_seen),
               "rule": "inputs enumerated by TLC from spec/Robust.tla: statements (SELECT base shape x up to two of 38 malformation operators; INSERT / UPDATE / "
                       "DELETE / UNION / SET / SHOW / DDL / empty / garbage / multi-statement) and insert payloads (31 classes x entry point embedded / raw / "
                       "http / rpc), each rendered in several concrete variants; distinct = distinct abstract inputs submitted; every SQL string goes to "
                       "sql.Parse, DB.Query + Iterate and the rpc query endpoint",
               "samples": [describe(st) for st in scenarios[0]["steps"] if st["op"] in ("sql", "payload")][:6],
               "sql_inputs": n_sql, "payload_inputs": n_pay, "valid_points": n_valid, "probes": n_probe, "outcomes": outcomes, "cluster_scenarios_with_odd_payloads": n_cluster,
               "states": states, "transitions": trans, "generated": counts, "exhaustive": False}
        rc = V.finish()
        common.write_evidence(pid, "exploration", cov,
                              ["structural classes of malformed input only (the grammar of spec/Robust.tla and its renderer); no byte-level fuzzing",
                               "functions that need external services (redis, geo, isp databases) are exercised only with wrong arities / argument kinds",
                               "a panic in a goroutine of the database ends the harness process; the input announced last is blamed",
                               "replication: odd payloads and valid points through the leader of an in-process cluster (harness links), partitions compared with a standalone database"], time.time() - t0, len(V.violations))
        return rc
    finally:
        shutil.rmtree(work, ignore_errors=True)


def describe(st):
    if st is None:
        return "?"
    if st["op"] == "sql":
        return "SQL %r" % (st["sql"] if len(st["sql"]) < 200 else st["sql"][:100] + "..." + st["sql"][-60:])
    if st["op"] == "payload":
        return "insert payload %s (variant %s) via %s" % (st["class"], st.get("var"), st["via"])
    return st["op"]


CHECKS = {"C16": check_C16}
