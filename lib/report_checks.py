"""C13 (spec/Report.tla): incomplete results are never presented as complete.
Cluster part: fault vectors of the specification replayed on an in-process
cluster (zvcluster); standalone part: deadlines, memory cap and the HTTP API
(zvreport)."""
import json, os, random, re, shutil, subprocess, time
import common
from common import Verdict, InfraError
from tla import run_tlc, tla
from storelib import *
from store_checks import random_menu
from cluster_checks import cluster_tables, insert_cmd

BEHAVIOURS = ["ok", "absent", "err", "stall", "retry"]


def report_mc(workdir, P, emit, timeout=1800):
    mod = "---- MODULE ReportMC ----\nEXTENDS Report\n====\n"
    cfg = ("SPECIFICATION Spec\nCONSTANTS P = %d MaxRows = 2 Behaviours = %s\nINVARIANTS %sNeverSilentlyIncomplete ReportExact\n"
           "CHECK_DEADLOCK FALSE\n" % (P, tla(set(BEHAVIOURS)), "Emit " if emit else ""))
    r = run_tlc(mod, "ReportMC", cfg, workdir, workers=common.NPROC, timeout=timeout)
    finals = {}
    if emit:
        for m in re.finditer(r'<<"ZVREP", "(.*)">>', r.out):
            f = json.loads(json.loads('"' + m.group(1) + '"'))
            if f["limit"] != 0:
                continue
            beh = [f["beh"][k] for k in sorted(f["beh"], key=int)] if isinstance(f["beh"], dict) else f["beh"]
            rws = [f["rows"][k] for k in sorted(f["rows"], key=int)] if isinstance(f["rows"], dict) else f["rows"]
            key = vec_key([(b["kind"], b["k"]) for b in beh], rws)
            finals.setdefault(key, set()).add((f["fin"]["successful"], tuple(sorted(f["fin"]["missing"])), f["complete"], f["told"]))
    return r, finals


def vec_key(beh, rows):
    return json.dumps([list(map(list, beh)), [min(r, 2) for r in rows]])


SQLS = ["SELECT * FROM a", "SELECT f FROM a GROUP BY b", "SELECT f, g FROM a GROUP BY a ORDER BY f DESC"]


def cluster_scenario(scn, rng, P, R, vectors, sqls, web_every=7):
    tabs = cluster_tables(variant=0)       # table a partitioned by dimension a
    menu = random_menu(rng, 12, ids_from=1, ticks=(1, 6), keys=CLUSTER_KEYS, nonnumeric=False, arrays=False)
    fols = ["f%d_%d" % (p, k) for p in range(P) for k in range(R)]
    cmds = [insert_cmd(p, 0) for p in menu]
    for c in cmds:
        c.pop("p", None)
    for f in fols:
        cmds.append({"a": "Connect", "f": f, "l": 0})
    cmds.append({"a": "Settle", "id": "s0"})
    for f in fols:
        for t in tabs:
            cmds.append({"a": "Flush", "f": f, "t": t.name})
    runs = []
    qi = 0
    for sql in sqls:
        # ground truth: the fault-free run (rows per partition, full result)
        cmds.append({"a": "Drain", "l": 0})
        cmds.append({"a": "Query", "l": 0, "sql": sql, "mem": True, "noDeadline": True, "id": "q%d" % qi})
        runs.append({"id": "q%d" % qi, "sql": sql, "vector": None})
        qi += 1
        for vec in vectors:
            for p, (kind, k) in enumerate(vec):
                if kind == "absent":
                    for r_ in range(R):
                        cmds.append({"a": "QueryFault", "f": "f%d_%d" % (p, r_), "fault": "absent"})
            cmds.append({"a": "Drain", "l": 0})
            for p, (kind, k) in enumerate(vec):
                if kind in ("err", "stall"):
                    for r_ in range(R):
                        cmds.append({"a": "QueryFault", "f": "f%d_%d" % (p, r_), "fault": {"err": "error"}.get(kind, kind), "after": k, "timeMs": 900})
                elif kind == "retry":
                    cmds.append({"a": "QueryFault", "f": "f%d_0" % p, "fault": "retry"})
            web = qi % web_every == 0 and not any(kind == "stall" for kind, _ in vec)
            cmds.append({"a": "Query", "l": 0, "sql": sql, "mem": not web, "noDeadline": True, "id": "q%d" % qi, "web": web})
            runs.append({"id": "q%d" % qi, "sql": sql, "vector": vec, "web": web, "truth_mem": not web})
            qi += 1
            for f in fols:
                cmds.append({"a": "QueryFault", "f": f, "fault": "ok"})
        # the fault-free answer over flushed data only (reference for the web runs)
        cmds.append({"a": "Drain", "l": 0})
        cmds.append({"a": "Query", "l": 0, "sql": sql, "mem": False, "noDeadline": True, "id": "q%d" % qi})
        runs.append({"id": "q%d" % qi, "sql": sql, "vector": None, "disk": True})
        qi += 1
    return {"scn": scn, "opts": {"tickMs": 1000, "stream": STREAM}, "tables": [t.define() for t in tabs],
            "topo": {"leaders": 1, "partitions": P, "replicas": R, "queryTimeoutMs": 350}, "cmds": cmds, "runs": runs}


def rowkey(r):
    return json.dumps({"k": r["k"], "p": r["p"], "v": r["v"]}, sort_keys=True)


def judge_cluster(pid, V, sc, lines, finals, stats):
    herr = [l for l in lines if l["a"] == "HarnessError"]
    if herr:
        stats["harness_errors"] += 1
        V.notes.append("%s: harness error %s" % (sc["scn"], json.dumps(herr[0])[:200]))
        return
    crash = [l for l in lines if l["a"] == "ProcessCrash"]
    if crash:
        if not crash[0]["in_database_code"]:
            raise InfraError("harness crashed in %s: %s\n%s" % (sc["scn"], crash[0]["panic"], crash[0]["stderr_tail"]))
        rp = common.save_replay(pid, sc["scn"], {"scenario": sc, "kind": "process-crash", "panic": crash[0]})
        V.violation(rp, "%s: the database process crashed: panic: %s" % (sc["scn"], crash[0]["panic"]))
        return
    by_id = {l["id"]: l for l in lines if l["a"] == "ClusterQuery"}
    P = sc["topo"]["partitions"]
    truth = {}
    for run in sc["runs"]:
        l = by_id.get(run["id"])
        if l is None:
            continue
        if run["vector"] is None:
            if "err" in l or (l.get("stats") or {}).get("MissingPartitions"):
                V.notes.append("%s: the fault-free run of `%s` reports %s" % (sc["scn"], run["sql"], l.get("err") or l.get("stats")))
                continue
            rows = [0] * P
            for f, n in (l.get("handlerRows") or {}).items():
                p = int(f[1:].split("_")[0])
                rows[p] = max(rows[p], n)
            truth[(run["sql"], bool(run.get("disk")))] = (sorted(map(rowkey, l["raw"])), rows)
    for run in sc["runs"]:
        l = by_id.get(run["id"])
        if l is None or run["vector"] is None:
            continue
        t = truth.get((run["sql"], False))
        if t is None:
            continue
        full, rows = t
        stats["cluster_runs"] += 1
        st = l.get("stats") or {}
        missing = tuple(sorted(st.get("MissingPartitions") or []))
        succ = st.get("NumSuccessfulPartitions", 0)
        told = "err" in l or bool(missing) or succ < st.get("NumPartitions", P)
        if run.get("truth_mem", True):
            got = sorted(map(rowkey, l["raw"]))
            complete = got == full
            if not complete:
                stats["cluster_incomplete"] += 1
            if not complete and not told:
                rp = common.save_replay(pid, "%s-%s" % (sc["scn"], run["id"]), {"scenario": strip_for_replay(sc, run), "kind": "cluster-silent", "run": run, "observed": l})
                V.violation(rp, "%s: `%s` with partition behaviours %s returned %d of %d rows and the caller was not told (no error, statistics %s)"
                            % (sc["scn"], run["sql"], run["vector"], len(got), len(full), st))
            # binding: the report is one the specification allows for this vector
            allowed = finals.get(vec_key(run["vector"], rows))
            if allowed is not None:
                stats["bound"] += 1
                if not any(a[0] == succ and a[1] == missing for a in allowed):
                    stats["drift"] += 1
                    if len(V.notes) < 6:
                        V.notes.append("%s %s: report (successful %s, missing %s) is not among the specification's %s for %s rows %s"
                                       % (sc["scn"], run["id"], succ, list(missing), sorted((a[0], a[1]) for a in allowed), run["vector"], rows))
        w = l.get("web")
        if w:
            stats["web_runs"] += 1
            tdisk = truth.get((run["sql"], True))
            if tdisk is None or "status" not in w:
                continue
            wst = w.get("stats") or {}
            wtold = w["status"] != 200 or bool(wst.get("MissingPartitions")) or wst.get("NumSuccessfulPartitions", 0) < wst.get("NumPartitions", P)
            if w["status"] == 200 and w.get("rows", 0) < len(tdisk[0]) and not wtold:
                rp = common.save_replay(pid, "%s-%s-web" % (sc["scn"], run["id"]), {"scenario": strip_for_replay(sc, run), "kind": "web-silent", "run": run, "observed": l})
                V.violation(rp, "%s: HTTP /immediate?%s with partition behaviours %s answered 200 with %d of %d rows and statistics %s"
                            % (sc["scn"], run["sql"], run["vector"], w.get("rows", 0), len(tdisk[0]), wst))


def strip_for_replay(sc, run):
    return sc


def standalone_scenarios(quick, rng):
    qs = ["SELECT * FROM t", "SELECT f FROM t GROUP BY b", "SELECT f FROM t ORDER BY f DESC", "SELECT f FROM t ORDER BY f LIMIT 3",
          "SELECT f FROM t GROUP BY a, period(2s) HAVING f > 3", "SELECT f FROM t WHERE a IN (SELECT a FROM t WHERE b = 'g1')",
          "SELECT f FROM t GROUP BY CROSSTAB(b)", "SELECT f FROM (SELECT f FROM t GROUP BY a, b) GROUP BY b",
          "SELECT f, g FROM t GROUP BY b, period(2s) ORDER BY g", "SELECT f FROM t WHERE b = 'g0' LIMIT 2 OFFSET 1"]
    out = []
    shapes = [(5, 2, 2), (4, 3, 0)] if quick else [(5, 2, 2), (4, 3, 0), (6, 2, 6), (3, 4, 1), (8, 1, 4)]
    for i, (keys, periods, flushed) in enumerate(shapes):
        n = keys * periods
        ks = [-1] + list(range(0, n + 1)) if not quick else [-1, 0, 1, 2, n // 2, n - 1, n]
        out.append({"scn": "d%d" % i, "keys": keys, "periods": periods, "flushed": flushed, "deadlineMs": 50, "ks": sorted(set(ks)),
                    "stops": [1, 3], "queries": qs if not quick else qs[:8],
                    "web": [{"timeoutNs": 1, "maxBytes": 0}, {"timeoutNs": 0, "maxBytes": 60}, {"timeoutNs": 0, "maxBytes": 0}] if i == 0 else []})
    # every deadline case again while the query shares its scan with one that was requested a
    # moment earlier and leaves after its first row (a coalesced scan hands each member its own error)
    out.append({"scn": "c0", "keys": 5, "periods": 2, "flushed": 2, "deadlineMs": 60, "ks": [0, 1, 2, 5, 9] if quick else list(range(0, 11)),
                "stops": [], "queries": qs[:4] if quick else qs, "web": [], "companions": True})
    # the size estimate stops the scan before the whole result has been read
    out.append({"scn": "w0", "keys": 60, "periods": 2, "flushed": 60, "queries": ["SELECT * FROM t", "SELECT f FROM t GROUP BY a"],
                "ks": [], "stops": [], "web": [{"timeoutNs": 0, "maxBytes": mb} for mb in ([1000, 2500] if quick else [400, 700, 1000, 1500, 2500, 4000])]})
    out.append({"scn": "m0", "keys": 1200, "periods": 1, "flushed": 600, "memCap": True, "queries": ["SELECT * FROM t", "SELECT f FROM t GROUP BY b"]})
    return out


def judge_standalone(pid, V, sc, lines, stats):
    herr = [l for l in lines if l["a"] == "HarnessError"]
    if herr:
        stats["harness_errors"] += 1
        V.notes.append("%s: harness error %s" % (sc["scn"], json.dumps(herr[0])[:200]))
        return
    crash = [l for l in lines if l["a"] == "ProcessCrash"]
    if crash:
        if not crash[0]["in_database_code"]:
            raise InfraError("harness crashed in %s: %s\n%s" % (sc["scn"], crash[0]["panic"], crash[0]["stderr_tail"]))
        rp = common.save_replay(pid, sc["scn"], {"standalone": sc, "kind": "process-crash", "panic": crash[0]})
        V.violation(rp, "%s: the database process crashed: panic: %s" % (sc["scn"], crash[0]["panic"]))
        return
    for l in lines:
        if l["a"] != "Run":
            continue
        mode = l["mode"]
        if mode == "deadline":
            stats["deadline_runs"] += 1
            # Report!ScanTold: fewer rows than the full answer => an error
            if not l["complete"]:
                stats["deadline_incomplete"] += 1
                if "err" not in l:
                    rp = common.save_replay(pid, "%s-deadline-%d" % (sc["scn"], stats["deadline_runs"]), {"standalone": dict(sc, queries=[l["sql"]], ks=[l["k"]], web=[]), "kind": "deadline-silent", "observed": l})
                    V.violation(rp, "%s: `%s` under a deadline that %s%s returned %d of %d rows and no error"
                                % (sc["scn"], l["sql"], "had already expired" if l["k"] < 0 else "passed while row %d was handled" % l["k"],
                                   " (sharing its scan with a query that left after one row)" if l.get("companion") else "", l["got"], l["full"]))
        elif mode == "memcap":
            stats["memcap_runs"] += 1
            if "err" not in l and l["sql"].startswith("SELECT *") and l["got"] < l["expectRows"]:
                rp = common.save_replay(pid, "%s-memcap" % sc["scn"], {"standalone": sc, "kind": "memcap-silent", "observed": l})
                V.violation(rp, "%s: `%s` under a memory cap returned %d of %d rows and no error" % (sc["scn"], l["sql"], l["got"], l["expectRows"]))
            if "err" in l:
                stats["memcap_told"] += 1
        elif mode == "web":
            stats["web_runs"] += 1
            for i in (0, 1):
                st = l.get("status%d" % i)
                if st == 200 and l.get("rows%d" % i, 0) < l["full"]:
                    stats["web_incomplete"] += 1
                    rp = common.save_replay(pid, "%s-web-%d" % (sc["scn"], stats["web_runs"]), {"standalone": dict(sc, queries=[l["sql"]], ks=[], stops=[], web=[l["case"]]), "kind": "web-silent", "observed": l})
                    V.violation(rp, "%s: HTTP %s of `%s` (query time-out %s ns, response limit %s bytes) answered 200 with %d of %d rows%s"
                                % (sc["scn"], ["/immediate", "/run (second request, from the cache)"][i], l["sql"], l["case"]["timeoutNs"] or "default",
                                   l["case"]["maxBytes"] or "default", l.get("rows%d" % i, 0), l["full"],
                                   "" if i == 0 else ": the truncated result was cached as a success"))
                elif st is not None and st != 200:
                    stats["web_told"] += 1


LIFE_SQL = {"q1": "SELECT * FROM t", "q2": "SELECT f FROM t GROUP BY a", "qf": "SELECT f FROM nosuchtable"}


def web_life_scenarios(workdir, num, seed):
    """Behaviours of spec/Web.tla (Atomic: every request that begins an entry is executed at once)."""
    mod = "---- MODULE WebSim ----\nEXTENDS Web\n====\n"
    cfg = ('SPECIFICATION Spec\nCONSTANTS Atomic = TRUE Queries = {"q1", "q2", "qf"} MaxVersion = 3 TTL = 3 MaxNow = 5 MaxSteps = 14 Failing = {"qf"}\n'
           'INVARIANT Emit\nCHECK_DEADLOCK FALSE\n')
    r = run_tlc(mod, "WebSim", cfg, workdir, workers=1, timeout=600, extra=["-simulate", "num=%d" % num, "-depth", "15", "-seed", str(seed)])
    out = []
    for m in re.finditer(r'<<"ZVWEB", "(.*)">>', r.out):
        out.append(json.loads(json.loads('"' + m.group(1) + '"')))
    return out


def web_mc(workdir):
    mod = "---- MODULE WebMC ----\nEXTENDS Web\n====\n"
    cfg = ('SPECIFICATION Spec\nCONSTANTS Atomic = FALSE Queries = {"q1", "qf"} MaxVersion = 2 TTL = 3 MaxNow = 4 MaxSteps = 8 Failing = {"qf"}\n'
           'VIEW view\nINVARIANTS FreshWhenComputed CurOfText NoSuccessForFailing\nPROPERTY Immutable\nCHECK_DEADLOCK FALSE\n')
    return run_tlc(mod, "WebMC", cfg, workdir, workers=8, timeout=900)


def judge_life(pid, V, sc, lines, stats):
    herr = [l for l in lines if l["a"] == "HarnessError"]
    if herr or not any(l["a"] == "LifeEnd" for l in lines):
        stats["harness_errors"] += 1
        V.notes.append("%s: web life replay did not finish: %s" % (sc["scn"], json.dumps((herr or lines[-1:])[0])[:200]))
        return
    base = sc["keys"] * sc["periods"]
    obs = {l["i"]: l for l in lines if l["a"] == "Life"}
    for i, st in enumerate(sc["life"]):
        o = obs.get(i)
        if o is None or st["a"] not in ("Request", "Cached") or "skipped" in o:
            continue
        stats["life_steps"] += 1
        exp_status = {"success": 200, "error": 500}[st["status"]]
        exp_rows = None
        if st["status"] == "success":
            per = 1 if st.get("q", "q1") == "q1" or st["a"] == "Cached" and sc["life_q"].get(st["perm"]) == "q1" else 1
            exp_rows = base + st["v"] * per
        bad = None
        if o.get("status") != exp_status:
            bad = "status %s, the specification has %s" % (o.get("status"), exp_status)
        elif exp_rows is not None and o.get("rows") != exp_rows:
            bad = "%s rows, the entry the specification answers with was computed from version %d of the data (%d rows)" % (o.get("rows"), st["v"], exp_rows)
        elif st["a"] == "Request" and o.get("permalink") and o["permalink"] != o.get("expectedPermalink"):
            bad = "permalink %s, the specification answers with entry %d (%s)" % (o["permalink"], st["perm"], o.get("expectedPermalink"))
        if bad:
            stats["life_mismatch"] += 1
            rp = common.save_replay(pid, "%s-life-%d" % (sc["scn"], i), {"standalone": sc, "kind": "web-life", "step": st, "observed": o})
            what = ("request %s%s" % (st["q"], " (no-cache)" if st.get("nocache") else "")) if st["a"] == "Request" else "/cached/<permalink of entry %d>" % st["perm"]
            V.notes.append("%s step %d: %s answered with %s (behaviour of spec/Web.tla; saved %s)" % (sc["scn"], i, what, bad, rp))
            # C13 proper: a failing query answered as a success
            if st["status"] == "error" and o.get("status") == 200:
                V.violation(rp, "%s: HTTP %s of a query whose execution fails answered 200" % (sc["scn"], what))
            return


def check_C13(args):
    t0 = time.time()
    pid = "C13"
    V = Verdict(pid)
    quick = common.tier() == "quick"
    rng = random.Random(common.seed() * 7919 + 13)
    bins = common.build(("zvcluster", "zvreport"))
    work = common.scratch(pid)
    cov = {}
    try:
        finals = {}
        if args.replay:
            rp = json.load(open(args.replay))
            cl = [rp["scenario"]] if "scenario" in rp else []
            sa = [rp["standalone"]] if "standalone" in rp else []
        else:
            r2, finals = report_mc(os.path.join(work, "mc2"), 2, True)
            if r2.violated or not r2.ok:
                if r2.violated:
                    V.notes.append("model: %s violated in spec/Report.tla" % r2.violated)
                else:
                    raise InfraError("Report model checking did not finish:\n" + r2.out[-2000:])
            r3, finals3 = report_mc(os.path.join(work, "mc3"), 3, not quick, timeout=3000)
            if r3.violated:
                V.notes.append("model: %s violated in spec/Report.tla (P = 3)" % r3.violated)
            elif not r3.ok:
                raise InfraError("Report model checking (P = 3) did not finish:\n" + r3.out[-2000:])
            finals.update(finals3)
            cov["states"], cov["transitions"] = r2.distinct + r3.distinct, r2.generated + r3.generated
            print("[%s] TLC: %d + %d distinct states, %d fault vectors with their allowed reports" % (pid, r2.distinct, r3.distinct, len(finals)), flush=True)
            behs = [("ok", 0), ("absent", 0), ("err", 0), ("err", 1), ("stall", 0), ("stall", 1), ("retry", 0)]
            v2 = [(a, b) for a in behs for b in behs]
            v3 = [(a, b, c) for a in behs for b in behs for c in behs]
            rng.shuffle(v2)
            rng.shuffle(v3)
            cl = []
            if quick:
                cl.append(cluster_scenario("c2a", rng, 2, 1, v2[:16], SQLS[:2]))
                cl.append(cluster_scenario("c2b", rng, 2, 2, v2[16:28], SQLS[1:3]))
                cl.append(cluster_scenario("c3a", rng, 3, 1, v3[:14], SQLS[:2]))
            else:
                for i in range(4):
                    cl.append(cluster_scenario("c2-%d" % i, rng, 2, 1 + i % 2, v2[i * 12:(i + 1) * 12 + 1], SQLS))
                for i in range(12):
                    cl.append(cluster_scenario("c3-%d" % i, rng, 3, 1 + i % 2, v3[i * 28:(i + 1) * 28], SQLS))
            sa = standalone_scenarios(quick, rng)
        stats = {k: 0 for k in ("harness_errors", "cluster_runs", "cluster_incomplete", "bound", "drift", "web_runs", "deadline_runs",
                                "deadline_incomplete", "memcap_runs", "memcap_told", "web_incomplete", "web_told")}
        if cl:
            strip = lambda s: {k: v for k, v in s.items() if k != "runs"}
            traces = common.run_shards(bins["zvcluster"], [strip(s) for s in cl], os.path.join(work, "runc"), nproc=min(8, len(cl)), timeout=2400)
            for s in cl:
                judge_cluster(pid, V, s, traces.get(s["scn"], []), finals, stats)
        print("[%s] cluster part done at %.1fs: %s" % (pid, time.time() - t0, stats), flush=True)
        if sa:
            traces = common.run_shards(bins["zvreport"], sa, os.path.join(work, "runs"), nproc=min(8, len(sa)), timeout=2400)
            for s in sa:
                judge_standalone(pid, V, s, traces.get(s["scn"], []), stats)
        # the life of a query in the HTTP API's cache (spec/Web.tla), replayed with real time
        if not args.replay:
            wm = web_mc(os.path.join(work, "webmc"))
            if not wm.ok:
                raise InfraError("Web model checking failed:\n" + wm.out[-1500:])
            cov["web_states"] = wm.distinct
            lives = web_life_scenarios(os.path.join(work, "websim"), 6 if quick else 40, common.seed())
            lsc = []
            for li, h in enumerate(lives):
                steps = [dict(x) for x in h]
                lsc.append({"scn": "life%d" % li, "keys": 3, "periods": 1, "flushed": 3, "queries": [], "ks": [], "stops": [], "web": [],
                            "life": steps, "lifeSQL": LIFE_SQL, "tickMs": 1500, "ttlMs": 3750,
                            "life_q": {x["perm"]: x["q"] for x in steps if x["a"] == "Request"}})
            ltr = common.run_shards(bins["zvreport"], [{k: v for k, v in s_.items() if k != "life_q"} for s_ in lsc], os.path.join(work, "runl"),
                                    nproc=max(1, len(lsc)), timeout=900)
            stats["life_steps"] = stats["life_mismatch"] = 0
            for s_ in lsc:
                judge_life(pid, V, s_, ltr.get(s_["scn"], []), stats)
            cov["web_life_behaviours"] = len(lsc)
        print("[%s] standalone part done at %.1fs: %s" % (pid, time.time() - t0, stats), flush=True)
        # the rpc part: followers answer the leader over the real rpc transport and fail
        # after k rows; the failure travels in the closing message of the remote query
        if not args.replay or "wire" in rp:
            import wire_checks
            wbin = common.build(("zvwire",))["zvwire"]
            if args.replay:
                wsc = [rp["wire"]]
            else:
                wsc = [wire_checks.wire_scenario("rpc%d" % i, rng, rng.choice([2, 3]), i % 4, 8 if quick else 16, faults=True) for i in range(3 if quick else 16)]
            wtr = common.run_shards(wbin, wsc, os.path.join(work, "runw"), nproc=min(8, len(wsc)), timeout=1800)
            wstats = {k: 0 for k in ("harness_errors", "queries", "with_rows", "embedded_errors", "faulted", "faulted_incomplete", "reported_incomplete")}
            for s_ in wsc:
                wire_checks.judge_wire(pid, V, s_, wtr.get(s_["scn"], []), wstats)
            wfails, wviol, nses, nlines = wire_checks.validate_wire(wtr, os.path.join(work, "tvw"))
            stats["rpc_runs"], stats["rpc_faulted"], stats["rpc_faulted_incomplete"] = wstats["queries"], wstats["faulted"], wstats["faulted_incomplete"]
            stats["rpc_sessions_validated"], stats["rpc_sessions_rejected"] = nses, len(wfails)
            stats["harness_errors"] += wstats["harness_errors"]
            if wfails:
                V.notes.append("%d remote-query sessions are not behaviours of spec/Wire.tla, e.g. %s" % (len(wfails), json.dumps(list(wfails.items())[0])[:300]))
            print("[%s] rpc part done at %.1fs: %s" % (pid, time.time() - t0, wstats), flush=True)
        if stats["drift"]:
            V.notes.append("%d cluster reports are not among those the specification allows for their fault vector (binding)" % stats["drift"])
        # distinct violations only
        uniq = {}
        for rp, text in V.violations:
            uniq.setdefault(re.sub(r"`[^`]*`", "Q", re.sub(r"\d+ of \d+ rows", "n of m rows", text.split(": ", 1)[-1]))[:150], (rp, text))
        V.violations = list(uniq.values())
        cov.update({"traces_validated_against_impl": stats["bound"], "fault_vectors_in_spec": len(finals)})
        cov.update(stats)
        cov["evaluations"] = stats["cluster_runs"] + stats["deadline_runs"] + stats["memcap_runs"] + stats["web_runs"] + stats.get("rpc_faulted", 0)
        cov["distinct_nontrivial"] = stats["cluster_incomplete"] + stats["deadline_incomplete"] + stats["memcap_told"] + stats["web_told"] + stats["web_incomplete"] + stats.get("rpc_faulted_incomplete", 0)
        cov["rule"] = ("a run = one query under one fault: a vector of partition behaviours {ok, absent, error after k rows, stall after k rows past the leader's "
                       "time-out, retriable failure} on an in-process cluster (P = 2, 3; 1-2 followers per partition), a deadline already expired or passing "
                       "while row k is handled, the memory cap, the HTTP API with a 1 ns query time-out or a response-size limit; non-trivial = the "
                       "fault made the result incomplete (or was reported)")
        cov["samples"] = [{"scn": s["scn"], "topo": s["topo"], "runs": s["runs"][:4]} for s in cl[:1]] + \
                         [{"scn": s["scn"], "keys": s["keys"], "periods": s["periods"], "ks": s.get("ks"), "queries": s["queries"][:3]} for s in sa[:1]]
        if "states" not in cov:
            cov["states"], cov["transitions"] = 1, 1
        rc = V.finish()
        common.write_evidence(pid, "model_checking", cov,
                              ["ground truth = the same query on the same data without the fault (rows compared as a multiset)",
                               "a cluster result is 'told' by an error or by statistics with missing partitions / successful < total; an HTTP 200 "
                               "is accepted only if its statistics list the missing partition; for deadlines, size limits and the memory cap the "
                               "HTTP API must not answer 200 with fewer rows",
                               "faults are injected in harness-owned query handlers (RegisterQueryHandler), deadlines through the context; "
                               "a stall lasts 900 ms against a leader time-out of 350 ms",
                               "rpc part: a leader whose partitions are answered by follower databases through the real rpc client and server "
                               "(zvwire); a follower fails after k rows, the failure travels in the closing message of the remote query"],
                              time.time() - t0, len(V.violations))
        if stats["harness_errors"] > 1:
            print("harness errors in %d scenarios" % stats["harness_errors"])
            return rc or 2
        return rc
    finally:
        shutil.rmtree(work, ignore_errors=True)


CHECKS = {"C13": check_C13}
