"""Cluster checks (spec/Cluster.tla): C12 replication, C10 cluster = standalone."""
import json, os, random, re, shutil, sys, time
from storelib import *
from tla import run_tlc, tla
import common
from common import Verdict, InfraError
from store_checks import expected_cells, rows_to_cells, diff_cells, random_menu
import querygen


def cluster_tables(rng=None, variant=0):
    """Two tables with different partition keys (one partitioned by all dims)."""
    if variant % 6 >= 4:
        # the table's own GROUP BY drops a dimension that the partitioning hashes:
        # one (key, period) of the table is then spread over several partitions
        pk = [(), ("b",)][variant % 2]
        return [Table("a", fields=("f", "g"), where="all", group=("a",), res=2, partition_by=pk),
                Table("b", fields=("f",), where="by", group=("b",), res=1, partition_by=())]
    # partition keys are also declared out of alphabetical order: leader and
    # follower must agree on the order in which they hash them
    pk = [("a",), ("b",), ("b", "a"), ()][variant % 4]
    return [Table("a", fields=("f", "g"), where="all", group=("a", "b"), res=2, partition_by=pk),
            Table("b", fields=("f",), where="by", group=("b",), res=1, partition_by=())]


def mc_module(name, topo, tables, menus, max_faults, depth):
    L, P, R = topo
    leaders = ["l%d" % i for i in range(L)]
    fols = ["f%d_%d" % (p, k) for p in range(P) for k in range(R)]
    part_of = {f: int(f[1:].split("_")[0]) for f in fols}
    # the routing used for exploring fault sequences is arbitrary (the real one is observed)
    part = {t.name: [(k + i) % P for k in sorted(KEYS)] for i, t in enumerate(tables)}
    menu = {l: [{"id": p["id"], "k": p["k"], "sat": set(p["sat"])} for p in menus[i]] for i, l in enumerate(leaders)}
    defs = {"c_Leaders": set(leaders), "c_Followers": set(fols), "c_Tables": set(t.name for t in tables),
            "c_PartOf": part_of, "c_Part": part, "c_Where": {t.name: t.where for t in tables}, "c_Menu": menu}
    lines = ["---- MODULE %s ----" % name, "EXTENDS Cluster"]
    for k, v in defs.items():
        lines.append("%s == %s" % (k, tla(v)))
    lines.append("====")
    cfg = "CONSTANTS\n" + "".join("  %s <- %s\n" % (k[2:], k) for k in defs) + "  MaxFaults = %d\n  Depth = %d\n" % (max_faults, depth)
    return "\n".join(lines) + "\n", cfg, leaders, fols


def cluster_sim(topo, tables, menus, num, depth, seed, workdir, max_faults=3):
    mod, cfg, leaders, fols = mc_module("ClusterSim", topo, tables, menus, max_faults, depth)
    cfg = "SPECIFICATION Spec\n" + cfg + "INVARIANT Emit\nCHECK_DEADLOCK FALSE\n"
    r = run_tlc(mod, "ClusterSim", cfg, workdir, workers=1, timeout=600,
                extra=["-simulate", "num=%d" % num, "-depth", str(depth), "-seed", str(seed)])
    hists = []
    for m in re.finditer(r'<<"ZVSIM", "(.*)">>', r.out):
        hists.append(json.loads(json.loads('"' + m.group(1) + '"')))
    if not hists:
        open(os.path.join(common.SCRATCH_ROOT, "last_tlc_failure.out"), "w").write(r.out)
        raise InfraError("TLC produced no cluster behaviours:\n" + r.out[-2000:])
    return hists, fols


def cluster_mc(topo, tables, menus, workdir, max_faults, timeout=3000):
    mod, cfg, _, _ = mc_module("ClusterMC", topo, tables, menus, max_faults, 1000)
    cfg = ("SPECIFICATION Spec\n" + cfg + "VIEW view\nINVARIANTS NoDuplicate OnlyRouted Persisted Converged\nCHECK_DEADLOCK FALSE\n")
    return run_tlc(mod, "ClusterMC", cfg, workdir, workers=common.NPROC, timeout=timeout)


def insert_cmd(p, l):
    c = render_insert(p)
    return {"a": "Insert", "l": l, "ts": p["ts"], "dims": c["dims"], "vals": c["vals"], "p": p}


def scenario_from_cluster_hist(scn, topo, tables, menus, hist, fols, queries=()):
    L, P, R = topo
    cmds = []
    up = {f: True for f in fols}
    links = {(l, f): False for l in range(L) for f in fols}
    inserted = []
    settles = []
    for h in hist:
        a = h["a"]
        if a == "Insert":
            l = int(h["l"][1:])
            p = menus[l][h["i"] - 1]
            cmds.append(insert_cmd(p, l))
            inserted.append(p)
        elif a == "Connect":
            l = int(h["l"][1:])
            cmds.append({"a": "Connect", "f": h["f"], "l": l})
            links[(l, h["f"])] = True
        elif a == "Cut":
            l = int(h["l"][1:])
            cmds.append({"a": "Cut", "f": h["f"], "l": l})
            links[(l, h["f"])] = False
        elif a == "Flush":
            cmds.append({"a": "Flush", "f": h["f"], "t": h["t"]})
        elif a == "CrashFollower":
            cmds.append({"a": "CrashFollower", "f": h["f"]})
            up[h["f"]] = False
            for l in range(L):
                links[(l, h["f"])] = False
        elif a in ("RestartFollower", "SnapshotFollower", "RestoreFollower"):
            cmds.append({"a": a, "f": h["f"]})
            if a == "RestartFollower":
                up[h["f"]] = True
        elif a == "RestartLeader":
            l = int(h["l"][1:])
            cmds.append({"a": "RestartLeader", "l": l})
            for f in fols:
                links[(l, f)] = False
        elif a == "Settle":
            sid = "s%d" % len(settles)
            cmds.append({"a": "Settle", "id": sid})
            settles.append({"id": sid, "n": len(inserted), "converged": all(up.values()) and all(links.values())})
    # bring everything up, connect every link, settle, query
    for f in fols:
        if not up[f]:
            cmds.append({"a": "RestartFollower", "f": f})
    for l in range(L):
        for f in fols:
            cmds.append({"a": "Connect", "f": f, "l": l})
    cmds.append({"a": "Settle", "id": "final"})
    settles.append({"id": "final", "n": len(inserted), "converged": True})
    if queries:
        for l in range(L):
            cmds.append({"a": "Drain", "l": l})       # every follower has a query handler registered
    for qi, (sql, mem) in enumerate(queries):
        cmds.append({"a": "Query", "l": qi % L, "sql": sql, "mem": mem, "id": "q%d" % qi})
    return {"scn": scn, "opts": {"tickMs": 1000, "stream": STREAM}, "tables": [t.define() for t in tables],
            "topo": {"leaders": L, "partitions": P, "replicas": R}, "cmds": cmds,
            "inserted": inserted, "settles": settles}


def directed_cluster(topo):
    """Goal-directed fault histories (behaviours of spec/Cluster.tla that random
    simulation reaches rarely): the orders of skip / flush / accept / flush / crash in
    which a table's separately persisted offsets and its file store's offsets differ."""
    L, P, R = topo
    fols = ["f%d_%d" % (p, k) for p in range(P) for k in range(R)]
    # per leader: rejected by table b's WHERE (b = 'x'), then accepted ones, on keys of different partitions
    menus, nid = [], 1
    for l in range(L):
        m = [point(nid, 2, 1, vs=("w", "x")), point(nid + 1, 3, 2, vs=("w",)), point(nid + 2, 3, 3, vs=("w", "x")), point(nid + 3, 4, 4, vs=("w",)),
             point(nid + 4, 5, 1, vs=("w",)), point(nid + 5, 5, 3, vs=("w", "x")), point(nid + 6, 6, 4, vs=("w",)), point(nid + 7, 6, 2, vs=("w", "x"))]
        nid += len(m)
        menus.append(m)
    ins = lambda i: [{"a": "Insert", "l": "l%d" % l, "i": i} for l in range(L)]
    conn = lambda fs: [{"a": "Connect", "f": f, "l": "l%d" % l} for f in fs for l in range(L)]
    flush = lambda ts: [{"a": "Flush", "f": f, "t": t} for f in fols for t in ts]
    S = [{"a": "Settle"}]
    crash = lambda f: [{"a": "CrashFollower", "f": f}, {"a": "RestartFollower", "f": f}] + conn([f])
    hs = {}
    # a table that only skipped entries is flushed (its offsets go to the offset file), later
    # it accepts entries and is flushed again, then the follower crashes
    hs["StaleOffsets"] = conn(fols) + ins(1) + ins(2) + S + flush(["b"]) + ins(3) + ins(4) + S + flush(["b", "a"]) + crash(fols[0]) + ins(5) + ins(6) + S
    # the same with the crash right after the second flush of b only, and a second crash
    hs["StaleOffsets2"] = (conn(fols) + ins(1) + S + flush(["b"]) + ins(3) + S + flush(["b"]) + crash(fols[-1]) + ins(2) + ins(4) + S
                           + flush(["a"]) + crash(fols[-1]) + ins(5) + S)
    # unflushed entries are lost by the crash and must be sent again, flushed ones must not
    hs["CrashUnflushed"] = conn(fols) + ins(1) + ins(3) + S + flush(["a", "b"]) + ins(4) + ins(2) + S + crash(fols[0]) + ins(5) + S
    # one table flushed, the other not: the leader must restart at the earlier of the two and each table must skip what it has
    hs["OneTableFlushed"] = conn(fols) + ins(3) + ins(4) + S + flush(["a"]) + ins(1) + ins(5) + S + crash(fols[0]) + ins(6) + S + flush(["b"]) + crash(fols[0]) + ins(7) + S
    # the follower returns with an older directory: everything after the snapshot is sent again, once
    hs["OlderSnapshot"] = (conn(fols) + ins(1) + ins(3) + S + flush(["a", "b"]) + [{"a": "SnapshotFollower", "f": fols[0]}] + ins(4) + ins(2) + S + flush(["a", "b"])
                           + [{"a": "CrashFollower", "f": fols[0]}, {"a": "RestoreFollower", "f": fols[0]}, {"a": "RestartFollower", "f": fols[0]}] + conn([fols[0]]) + ins(5) + S)
    # link cut while entries arrive, flush, reconnect, crash
    hs["CutFlushCrash"] = (conn(fols) + ins(3) + S + [{"a": "Cut", "f": fols[0], "l": "l0"}] + ins(4) + ins(1) + flush(["b"]) + conn([fols[0]]) + S + flush(["b"])
                           + crash(fols[0]) + ins(5) + S)
    return menus, hs, fols


def judge_cluster(pid, V, sc, lines, tables, stats, judge_queries):
    herr = [l for l in lines if l["a"] == "HarnessError"]
    if herr:
        stats["harness_errors"] += 1
        rp = common.save_replay(pid, sc["scn"] + "-harness", {"scenario": sc, "kind": "harness-error", "error": herr[0]})
        V.notes.append("%s: harness error %s (saved %s)" % (sc["scn"], json.dumps(herr[0])[:200], rp))
        return
    crash = [l for l in lines if l["a"] == "ProcessCrash"]
    if crash:
        if not crash[0]["in_database_code"]:
            # the driver itself went down in this scenario: no verdict for it (the check as a whole
            # fails as infrastructure only if this happens to more than a tenth of the scenarios)
            stats["harness_errors"] += 1
            rp = common.save_replay(pid, sc["scn"] + "-harness-crash", {"scenario": sc, "panic": crash[0]})
            V.notes.append("%s: the driver crashed (%s at %s; saved %s): not judged" % (sc["scn"], crash[0]["panic"][:120], crash[0]["top_frame"], rp))
            return
        rp = common.save_replay(pid, sc["scn"], {"scenario": sc, "kind": "process-crash", "panic": crash[0]})
        V.violation(rp, "%s: the database process crashed: panic: %s (at %s)" % (sc["scn"], crash[0]["panic"], crash[0]["top_frame"]))
        return
    views = {}
    for l in lines:
        if l["a"] == "View":
            views.setdefault(l["at"], {}).setdefault(l["t"], {})[l["node"]] = (l["part"], rows_to_cells(l["rows"]), l.get("err"))
    tabs = {t.name: t for t in tables}
    for st in sc["settles"]:
        at = views.get(st["id"])
        if not at:
            continue
        stats["settles"] += 1
        for tn, nodes in at.items():
            t = tabs[tn]
            exp = expected_cells(t, sc["inserted"], st["n"], True)
            solo = nodes.get("standalone")
            if solo and diff_cells(solo[1], exp):
                V.notes.append("%s %s: standalone table %s differs from the reference (see C01)" % (sc["scn"], st["id"], tn))
            parts = {}
            for node, (part, cells, err) in nodes.items():
                if node == "standalone":
                    continue
                # never more than routed: no duplicates, nothing foreign
                over = {k: (c, exp.get(k, 0)) for k, c in cells.items() if c > exp.get(k, 0)}
                if over:
                    k = sorted(over, key=repr)[0]
                    rp = common.save_replay(pid, "%s-%s-%s" % (sc["scn"], st["id"], node), {"scenario": sc, "kind": "duplicate", "node": node, "table": tn,
                                                                                             "over": [[list(x), over[x]] for x in sorted(over, key=repr)][:10]})
                    V.violation(rp, "%s at %s: follower %s table %s holds more than was inserted, e.g. cell %s observed/expected %s"
                                % (sc["scn"], st["id"], node, tn, list(k), over[k]))
                parts.setdefault(part, {})[node] = cells
            if not st["converged"]:
                continue
            stats["converged_checked"] += 1
            total = {}
            for part, reps in parts.items():
                names = sorted(reps)
                for other in names[1:]:
                    d = diff_cells(reps[names[0]], reps[other])
                    if d:
                        k = sorted(d, key=repr)[0]
                        rp = common.save_replay(pid, "%s-%s-replicas" % (sc["scn"], st["id"]), {"scenario": sc, "kind": "replicas-differ", "table": tn,
                                                                                                "diff": [[list(x), d[x]] for x in sorted(d, key=repr)][:10]})
                        V.violation(rp, "%s at %s: redundant followers %s and %s of partition %d differ on table %s, e.g. %s: %s"
                                    % (sc["scn"], st["id"], names[0], other, part, tn, list(k), d[k]))
                for k, c in reps[names[0]].items():
                    total[k] = total.get(k, 0) + c
            d = diff_cells(total, exp)
            if d:
                k = sorted(d, key=repr)[0]
                rp = common.save_replay(pid, "%s-%s-%s" % (sc["scn"], st["id"], tn), {"scenario": sc, "kind": "not-converged", "table": tn,
                                                                                      "diff": [[list(x), d[x]] for x in sorted(d, key=repr)][:12]})
                V.violation(rp, "%s at %s: the partitions of table %s together differ from what was inserted on %d cell(s), e.g. %s observed/expected %s"
                            % (sc["scn"], st["id"], tn, len(d), list(k), d[k]))
    if judge_queries:
        for l in lines:
            if l["a"] != "ClusterQuery":
                continue
            stats["queries"] += 1
            st_ = l.get("stats") or {}
            if st_.get("MissingPartitions") or st_.get("NumSuccessfulPartitions", 0) < st_.get("NumPartitions", 0):
                # the cluster says the result is incomplete (C13): nothing to compare
                stats["queries_reported_incomplete"] = stats.get("queries_reported_incomplete", 0) + 1
                continue
            key = lambda r: json.dumps({"k": r["k"], "p": r["p"], "v": r["v"]}, sort_keys=True)
            ordered = "ORDER BY" in l["sql"]
            limited = "LIMIT" in l["sql"] and not ordered
            a, b = l["raw"], l["solo"]
            same = ("err" in l) == ("soloErr" in l)
            if same and "err" not in l:
                if limited:
                    same = len(a) == len(b)
                elif ordered and "LIMIT" in l["sql"]:
                    # ties at the cut may be broken either way: the sequence of sort keys decides
                    same = len(a) == len(b) and order_ok(a, b, l["sql"])
                elif ordered:
                    same = sorted(map(key, a)) == sorted(map(key, b)) and order_ok(a, b, l["sql"])
                else:
                    same = sorted(map(key, a)) == sorted(map(key, b))
                if a:
                    stats["queries_with_rows"] += 1
            if not same:
                rp = common.save_replay(pid, "%s-%s" % (sc["scn"], l["id"]), {"scenario": sc, "kind": "cluster-vs-standalone", "query": l})
                V.violation(rp, "%s: `%s` returns %d rows%s from the cluster and %d rows%s from a standalone database with the same points"
                            % (sc["scn"], l["sql"], len(a), " (error: %s)" % l["err"] if "err" in l else "", len(b),
                               " (error: %s)" % l["soloErr"] if "soloErr" in l else ""))


def validate_follow(traces, workdir):
    """TLC: the leader's recorded bookkeeping follows the hand-over rules (spec/TraceFollow.tla)."""
    os.makedirs(workdir, exist_ok=True)
    path = os.path.join(workdir, "follow.ndjson")
    index = []
    nscn = 0
    with open(path, "w") as f:
        for scn, lines in traces.items():
            evs = [l for l in lines if l.get("a") == "Ev"]
            if not evs or any(l.get("a") in ("HarnessError", "ProcessCrash") for l in lines):
                continue
            # offsets -> entry indices of the leader's WAL (every entry the leader has processed has been logged with both)
            idx = {}
            for e in evs:
                if e["e"] == "entry":
                    idx[(e["l"], tuple(e["off"]))] = e["i"]
            def ix(l, off):
                off = tuple(off)
                return 0 if off == (0, 0) else idx.get((l, off), -99)
            nscn += 1
            rows = [{"a": "Reset", "scn": scn}]
            # the instance a leader restart replaces may still fire hooks after the restart has
            # been recorded: its joins, entries and deliveries are not the new instance's
            connected, joined_since = set(), set()
            for e in evs:
                if e["e"] == "lrestart":
                    connected = {k for k in connected if k[0] != e["l"]}
                    joined_since.discard(e["l"])
                elif e["e"] == "connect":
                    connected.add((e["l"], e["f"]))
                elif e["e"] == "join":
                    if (e["l"], e["f"]) not in connected:
                        continue
                    joined_since.add(e["l"])
                elif e["e"] == "entry" and e["l"] not in joined_since:
                    continue
                elif e["e"] == "deliver" and (e["l"], e["f"]) not in connected:
                    continue
                if e["e"] == "connect":
                    rows.append({"a": "connect", "l": e["l"], "f": e["f"], "tabs": {t: ix(e["l"], o) for t, o in e["tabs"].items()}, "earliest": ix(e["l"], e["earliest"])})
                elif e["e"] == "join":
                    rows.append({"a": "join", "l": e["l"], "f": e["f"], "t": e["t"].split("@")[0], "off": ix(e["l"], e["off"])})
                elif e["e"] == "entry":
                    rows.append({"a": "entry", "l": e["l"], "i": e["i"], "incl": e.get("incl") or []})
                elif e["e"] == "deliver":
                    rows.append({"a": "deliver", "l": e["l"], "f": e["f"], "i": ix(e["l"], e["off"])})
                elif e["e"] == "lrestart":
                    rows.append({"a": "lrestart", "l": e["l"]})
            for r_ in rows:
                # one shape for all lines (TLC reads them as records)
                full = {"a": r_["a"], "scn": r_.get("scn", ""), "l": r_.get("l", 0), "f": r_.get("f", ""), "t": r_.get("t", ""), "off": r_.get("off", 0),
                        "i": r_.get("i", 0), "incl": r_.get("incl", []), "tabs": r_.get("tabs", {"_": 0}), "earliest": r_.get("earliest", 0)}
                f.write(json.dumps(full) + "\n")
                index.append((scn, r_))
    if not index:
        return {}, 0, 0
    mod = "---- MODULE FollowRun ----\nEXTENDS TraceFollow\n====\n"
    cfg = "SPECIFICATION TraceSpec\nINVARIANT Done\nCHECK_DEADLOCK FALSE\n"
    r = run_tlc(mod, "FollowRun", cfg, workdir, workers=1, timeout=1800, env={"ZV_TRACE": path}, java_opts="-Xss64m -Xmx3g")
    m = re.search(r'<<"ZVTRACE", "(.*)">>', r.out)
    if not m:
        open(os.path.join(common.SCRATCH_ROOT, "last_tlc_failure.out"), "w").write(r.out)
        raise InfraError("follow trace validation did not finish:\n" + r.out[-1500:])
    rep = json.loads(json.loads('"' + m.group(1) + '"'))
    fails = {}
    for fl in rep["fails"]:
        scn, rec = index[fl["at"] - 1]
        fails[scn] = {"line": fl["at"], "event": rec}
    return fails, nscn, len(index)


def order_ok(a, b, sql):
    """Same order where ORDER BY decides it: compare the sequences of sort keys."""
    m = re.search(r"ORDER BY (.*?)( LIMIT|$)", sql)
    keys = [k.strip().split()[0] for k in m.group(1).split(",")]

    def kv(r):
        return [r["p"] if k == "_time" else r["v"].get(k, (r.get("d") or {}).get(k)) for k in keys]
    return [kv(r) for r in a] == [kv(r) for r in b]


def cluster_check(args, pid, judge_queries, topos, quick_n, thorough_n, text, note_assumptions):
    t0 = time.time()
    V = Verdict(pid)
    quick = common.tier() == "quick"
    rng = random.Random(common.seed() * 104729 + int(pid[1:]))
    bins = common.build(("zvcluster",))
    work = common.scratch(pid)
    cov = {}
    try:
        if args.replay:
            sc = json.load(open(args.replay))["scenario"]
            scenarios = [sc]
        else:
            # (M) the replication design, exhaustively for a small instance
            tabs = cluster_tables(variant=0)
            menu = [[point(1, 1, 1, vs=("w", "x")), point(2, 2, 2, vs=("w",)), point(3, 3, 4, vs=("w", "x"))]]
            # bounds fitted to measured state counts: (1,2,1) x 3 entries x 2 faults 109 k states (9 s), x 4 faults 539 k (83 s);
            # two followers per partition x 2 entries x 2 faults 9.8 M (16 min); x 3 entries does not finish in an hour
            jobs = [((1, 2, 1), menu, 2, 900)] if quick else [((1, 2, 1), menu, 4, 1800), ((1, 2, 2), [menu[0][:2]], 2, 3400)]
            cov["states"] = cov["transitions"] = 0
            for ji, (mtopo, mmenu, mfaults, mto) in enumerate(jobs):
                r = cluster_mc(mtopo, tabs, mmenu, os.path.join(work, "mc%d" % ji), max_faults=mfaults, timeout=mto)
                if r.violated:
                    V.notes.append("model: %s violated in spec/Cluster.tla" % r.violated)
                elif not r.ok:
                    open(os.path.join(common.SCRATCH_ROOT, "last_tlc_failure.out"), "w").write(r.out)
                    raise InfraError("cluster model checking did not finish:\n" + r.out[-2000:])
                cov["states"] += r.distinct
                cov["transitions"] += r.generated
                shutil.rmtree(os.path.join(work, "mc%d" % ji), ignore_errors=True)
            print("[%s] model checking done at %.1fs: %d distinct states" % (pid, time.time() - t0, cov["states"]), flush=True)
            scenarios = []
            n = quick_n if quick else thorough_n
            per = 6 if quick else 12
            for gi in range(max(1, n // per)):
                topo = rng.choice(topos)
                L, P, R = topo
                variant = (4 + gi % 2) if gi % 3 == 2 else (2 if gi == 0 else rng.randint(0, 3))
                tabs = cluster_tables(variant=variant)
                menus = []
                pid_from = 1
                for l in range(L):
                    m = random_menu(rng, rng.randint(3, 6) if L > 1 else rng.randint(5, 9), ids_from=pid_from, ticks=(1, 9),
                                    keys=CLUSTER_KEYS, nonnumeric=False)
                    if variant >= 4 and l == 0:
                        # points that share the table's key but differ in a dimension it drops
                        for idx, k in enumerate([12, 18, 13, 19][:len(m)]):
                            m[idx]["k"], m[idx]["sat"] = k, sat_of(k)
                    pid_from += len(m)
                    menus.append(m)
                hs, fols = cluster_sim(topo, tabs, menus, per, rng.choice([30, 45]), rng.randint(1, 10 ** 6),
                                       os.path.join(work, "sim%d" % gi), max_faults=rng.choice([2, 3, 4]))
                for j, h in enumerate(hs):
                    qs = []
                    if judge_queries:
                        for _ in range(10 if quick else 25):
                            q = querygen.gen_query(rng, tabs, now_hint=5)
                            if "SUM(" in q:
                                continue      # an aggregate of a stored field is not a valid query
                            # (disk-only results depend on each node's own flush history: memstore-inclusive only)
                            qs.append((q, True))
                        qs += [("SELECT * FROM a", True), ("SELECT f FROM a GROUP BY b, period(4s)", True),
                               ("SELECT f FROM b ORDER BY f DESC LIMIT 2", True), ("SELECT f, g FROM a GROUP BY a HAVING f > 16", True),
                               ("SELECT f FROM a WHERE b IN (SELECT b FROM b) GROUP BY a", True),
                               ("SELECT f FROM a GROUP BY CROSSTAB(b), a", True),
                               # HAVING decides before ORDER BY / LIMIT cut (both plan shapes: pushed down or not)
                               ("SELECT f FROM a GROUP BY a HAVING f > 16 ORDER BY f LIMIT 2", True),
                               # (no OFFSET here: a pushed-down OFFSET is the known finding D11 of C11)
                               ("SELECT f FROM a GROUP BY b HAVING f > 16 ORDER BY f LIMIT 1", True),
                               ("SELECT f, g FROM a GROUP BY a, b HAVING g > 4 ORDER BY f LIMIT 2", True)]
                    sc = scenario_from_cluster_hist("%s-%d-%d" % (pid, gi, j), topo, tabs, menus, h, fols, qs)
                    sc["tabs_variant"] = [t.partition_by for t in tabs]
                    scenarios.append(sc)
            if not judge_queries:
                for di, topo in enumerate([(1, 2, 1), (2, 2, 1), (1, 2, 2)] if quick else [(1, 2, 1), (2, 2, 1), (1, 2, 2), (1, 3, 1), (2, 3, 2)]):
                    menus, hs, fols = directed_cluster(topo)
                    for vi in ((0,) if quick else (0, 2, 3)):
                        tabs = cluster_tables(variant=vi)
                        for name, h in hs.items():
                            sc = scenario_from_cluster_hist("%s-d%d-%d-%s" % (pid, di, vi, name), topo, tabs, menus, h, fols, [])
                            sc["tabs_variant"] = [t.partition_by for t in tabs]
                            scenarios.append(sc)
        print("[%s] %d scenarios generated at %.1fs" % (pid, len(scenarios), time.time() - t0), flush=True)
        strip = lambda s: {k: v for k, v in s.items() if k not in ("inserted", "settles", "tabs_variant")}
        for s in scenarios:
            for c in s["cmds"]:
                c.pop("p", None)
        traces = common.run_shards(bins["zvcluster"], [strip(s) for s in scenarios], os.path.join(work, "run"),
                                   nproc=max(1, common.NPROC // 2), timeout=1500)
        print("[%s] ran at %.1fs" % (pid, time.time() - t0), flush=True)
        stats = {"harness_errors": 0, "settles": 0, "converged_checked": 0, "queries": 0, "queries_with_rows": 0, "queries_reported_incomplete": 0}
        by_id = {s["scn"]: s for s in scenarios}
        faults = 0
        def tabs_of(sc):
            return [Table(d["name"], fields=d["abs"]["fs"][1:], where=d["abs"]["w"],
                          group=[g.strip() for g in d["sql"].split("GROUP BY")[1].split(",") if "period" not in g],
                          res=int(re.search(r"period\((\d+)s\)", d["sql"]).group(1)), partition_by=d.get("partitionBy") or ())
                    for d in sc["tables"]]
        suspects = {}
        for scn, lines in traces.items():
            sc = by_id[scn]
            V1 = Verdict(pid)
            judge_cluster(pid, V1, sc, lines, tabs_of(sc), stats, judge_queries)
            V.notes += V1.notes
            if V1.violations:
                suspects[scn] = V1.violations
            faults += sum(1 for c in sc["cmds"] if c["a"] in ("Cut", "CrashFollower", "RestartLeader", "RestoreFollower"))
        # A verdict needs a behaviour of the real system that can be shown again: every
        # scenario with a mismatch is executed twice more, each in a process of its own;
        # the mismatch counts if it shows again (timing-dependent one-off mismatches of
        # the in-process cluster are reported as unreproduced, never as a violation).
        unreproduced = 0
        if suspects and not args.replay:
            names = sorted(suspects)[:24]
            again = []
            for k in (1, 2):
                again += [dict(strip(by_id[n]), scn="%s~%d" % (n, k)) for n in names]
            t2 = common.run_shards(bins["zvcluster"], again, os.path.join(work, "rerun"), nproc=max(1, min(len(again), common.NPROC // 2)), timeout=1500)
            scratch_stats = {k: 0 for k in stats}
            for n in names:
                shown = 0
                for k in (1, 2):
                    Vk = Verdict(pid)
                    judge_cluster(pid, Vk, dict(by_id[n], scn="%s~%d" % (n, k)), t2.get("%s~%d" % (n, k), []), tabs_of(by_id[n]), scratch_stats, judge_queries)
                    shown += bool(Vk.violations)
                if shown:
                    V.violations += suspects[n]
                else:
                    unreproduced += 1
                    # kept for diagnosis: the events of the execution that showed the mismatch
                    common.save_replay(pid, n + "-unreproduced-trace", {"scenario": by_id[n], "lines": [l for l in traces.get(n, []) if l.get("a") in ("Ev", "HarnessError")],
                                                                         "mismatch": suspects[n][0][1]})
                    V.notes.append("%s: a mismatch (%s) did not show again in 2 re-executions of the scenario: not counted"
                                   % (n, suspects[n][0][1][:160]))
        else:
            for n in suspects:
                V.violations += suspects[n]
        cov["unreproduced_mismatches"] = unreproduced
        # (T) the leader's follower bookkeeping, as recorded by the hooks, against the hand-over rules
        ffails, fscn, flines = validate_follow(traces, os.path.join(work, "tvf"))
        cov["traces_validated_against_impl"], cov["follow_trace_lines"], cov["follow_traces_rejected"] = fscn, flines, len(ffails)
        for scn_, info in list(ffails.items())[:5]:
            rp = common.save_replay(pid, scn_ + "-follow-trace", {"scenario": by_id[scn_], "info": info,
                                                                  "lines": [l for l in traces.get(scn_, []) if l.get("a") == "Ev"]})
            V.notes.append("%s: the leader's bookkeeping departs from the hand-over rules of spec/TraceFollow.tla at %s (saved %s)"
                           % (scn_, json.dumps(info["event"])[:200], rp))
        print("[%s] %d follow traces (%d lines) validated, %d rejected" % (pid, fscn, flines, len(ffails)), flush=True)
        if pid == "C12" and not args.replay:
            import wire_checks
            rstats = {}
            wire_checks.rpc_follow_part(pid, V, rng, work, quick, rstats)
            cov.update(rstats)
            print("[%s] rpc follow part: %s" % (pid, rstats), flush=True)
            # (T) the repository's own cluster test (real servers, rpc transport, restarts of
            # leaders and followers): its hook events against spec/TracePipe.tla
            import pipe_checks
            pstats = {}
            pipe_checks.repo_tests_part(pid, V, "./server/", "TestServers", work, pstats, "servers")
            cov.update(pstats)
        cov.update({"replayed_behaviours": len(scenarios), "fault_steps": faults,
                    "settle_points_checked": stats["settles"], "converged_states_checked": stats["converged_checked"],
                    "cluster_queries_compared": stats["queries"], "cluster_queries_with_rows": stats["queries_with_rows"],
                    "harness_errors": stats["harness_errors"], "queries_reported_incomplete": stats["queries_reported_incomplete"],
                    "samples": [{"scn": s["scn"], "topo": s["topo"], "partitionBy": s.get("tabs_variant"),
                                 "actions": [c["a"] + (":" + c.get("f", "") if c.get("f") else "") for c in s["cmds"]][:40]} for s in scenarios[:2]]})
        rc = V.finish()
        common.write_evidence(pid, "model_checking", cov, note_assumptions, time.time() - t0, len(V.violations))
        if stats["harness_errors"] > max(2, len(scenarios) // 10):
            print("harness errors in %d of %d scenarios" % (stats["harness_errors"], len(scenarios)))
            return rc or 2
        return rc
    finally:
        shutil.rmtree(work, ignore_errors=True)


ASSUME = ["in-process cluster: leaders in passthrough mode, followers wired through DBOpts.Follow / RegisterRemoteQueryHandler; "
          "the links (deliver, cut, reconnect like server.followSource with the last delivered offset) belong to the harness",
          "follower crash = crash image of its directory; restart from an older snapshot of the directory included",
          "virtual clocks of all nodes are advanced together (a real cluster shares the wall clock)",
          "quiescence is exact: a marker entry per leader, the leader's bookkeeping hook, link delivery counts and the followers' pipeline counters",
          "the routing function is observed, not predicted: the partitions of a table together must hold every inserted point once"]


def check_C12(args):
    return cluster_check(args, "C12", False, [(1, 2, 1), (1, 2, 2), (2, 2, 1), (1, 3, 1), (2, 3, 2)], 36, 600, "", ASSUME)


def check_C10(args):
    return cluster_check(args, "C10", True, [(1, 1, 1), (1, 2, 1), (1, 3, 2), (2, 2, 1), (1, 5, 1), (2, 4, 1)], 24, 300, "", ASSUME +
                         ["every generated query is run through a leader (cluster plan) and on a standalone database fed the same points"])


CHECKS = {"C12": check_C12, "C10": check_C10}
