"""C11 (spec/GenPlan.tla): translation validation of the distributed planner.
TLC enumerates the query descriptors and the pushdown condition; every
descriptor is rendered as SQL, planned by the real planner with and without
QueryCluster over mock tables split over N partitions, and both plans are
executed (zvpure, kind "plan")."""
import json, os, random, re, shutil, time
import common
from common import Verdict, InfraError
from pure_checks import gen_cases, run_pure

SEL = {"star": "*", "f": "f", "fg": "f, g", "sum": "f + g AS r, f", "pts": "_points, f"}
KW = "group by a having f order by b limit 1"
WHERE = {"none": "", "eq": "b = 'x'", "kw": "b <> '%s'" % KW,
         "insub": "a IN (SELECT a FROM u WHERE b = 'x')",
         "insubgb": "a IN (SELECT a FROM u GROUP BY a)",
         "insubhaving": "a IN (SELECT a FROM u GROUP BY a HAVING f > 2)"}
GB = {"all": [], "a": ["a"], "b": ["b"], "ab": ["a", "b"], "expr": ["CONCAT('_', a, b) AS ab"], "lossy": ["SUBSTR(b, 0, 1) AS b1"], "none": []}
ORDER = {"none": ("", []), "fdesc": ("f DESC", ["f"]), "a_time": ("a, _time", ["a", "_time"]), "timedesc_f": ("_time DESC, f", ["_time", "f"])}
LIM = {"none": "", "l2": "LIMIT 2", "l2o1": "LIMIT 1, 2"}
LVL = {"all": "", "a": " GROUP BY a", "b": " GROUP BY b", "ab": " GROUP BY a, b"}


def render_from(fr):
    if fr["kind"] == "t":
        return "t"
    if fr["kind"] == "ord":
        # (a total order: with ties at the cut LIMIT may keep either row, and the two plans need not agree)
        return "(SELECT f, g FROM t GROUP BY a, b ORDER BY f DESC, a, b, _time LIMIT 3)"
    inner = "t"
    for g in reversed(fr["chain"]):       # chain[0] is the outermost sub-query
        inner = "(SELECT f, g FROM %s%s)" % (inner, LVL[g])
    return inner


TABLE_SQL = {"all": "SELECT SUM(w) AS f, SUM(x) AS g FROM s GROUP BY period(1s)",
             "ab": "SELECT SUM(w) AS f, SUM(x) AS g FROM s GROUP BY a, b, period(1s)",
             "a": "SELECT SUM(w) AS f, SUM(x) AS g FROM s GROUP BY a, period(1s)"}
PKS = [[], ["a"], ["b"], ["a", "b"]]
TGS = ["all", "ab", "a"]


def render(q, variant=0):
    """SQL text of a descriptor.  variant 1 writes the keywords in upper case
    and adds line breaks (the rewrite of the non-pushdown path is textual)."""
    parts = ["SELECT " + SEL[q["sel"]], "FROM " + render_from(q["from"])]
    if WHERE[q["where"]]:
        parts.append("WHERE " + WHERE[q["where"]])
    gb = list(GB[q["gb"]])
    if q["ctab"] != "none":
        gb.append("CROSSTAB(%s)" % q["ctab"])
    if q["period"]:
        gb.append("period(%ds)" % q["period"])
    if q["gb"] == "none" and not gb:
        gb.append("period(1s)")          # group by nothing but the (native) period
    if gb:
        parts.append("GROUP BY " + ", ".join(gb))
    if q["having"] != "none":
        parts.append("HAVING f > 2")
    if ORDER[q["order"]][0]:
        parts.append("ORDER BY " + ORDER[q["order"]][0])
    if LIM[q["lim"]]:
        parts.append(LIM[q["lim"]])
    if variant == 1:
        return "\n".join(parts)
    if variant == 2:
        return " ".join(p.replace("GROUP BY", "group by").replace("ORDER BY", "order by").replace("HAVING", "having").replace("LIMIT", "limit")
                        .replace("WHERE", "where").replace("SELECT", "select").replace("FROM", "from") for p in parts)
    return " ".join(parts)


def dataset(rng, n):
    pts = []
    for i in range(n):
        d = {"a": rng.randint(1, 4), "b": rng.choice(["x", "y", "z", "xy", "yz"])}
        if rng.random() < 0.8:
            d["c"] = rng.choice(["p", "q"])
        if rng.random() < 0.08:
            del d["b"]
        pts.append({"ts": rng.randint(1, 6), "dims": d, "vals": {"w": float(rng.randint(1, 4)), "x": float(rng.randint(0, 3))}})
    return pts


def unsupported(q, tg):
    """Shapes that are not meaningful for the table grouping at hand."""
    dims = {"all": {"a", "b", "c"}, "ab": {"a", "b"}, "a": {"a"}}[tg]
    need = set()
    # (grouping by a dimension the table has dropped is legal: every row has it unset)
    if q["gb"] in ("expr", "lossy") or q["ctab"] == "b" or q["where"] in ("eq", "kw"):
        need.add("b")
    if q["from"]["kind"] == "ord" or any("b" in g for g in q["from"]["chain"]):
        need.add("b")
    return not need <= dims


def check_C11(args):
    t0 = time.time()
    pid = "C11"
    V = Verdict(pid)
    quick = common.tier() == "quick"
    rng = random.Random(common.seed() * 6151 + 11)
    bins = common.build(("zvpure",))
    work = common.scratch(pid)
    try:
        if args.replay:
            rp = json.load(open(args.replay))
            cases = [rp["case"]]
            counts = []
        else:
            out = os.path.join(work, "plan.ndjson")
            sample = 24 if quick else 1
            counts, wall = gen_cases("GenPlan", dict(Sample=sample, Offset=common.seed() % sample), out, os.path.join(work, "gen"))
            descs = [json.loads(l) for l in open(out) if l.strip()]
            print("[%s] GenPlan: %s descriptors kept of %s in %.1fs" % (pid, counts[0], counts[1], wall), flush=True)
            datasets = [dataset(rng, rng.randint(6, 16)) for _ in range(6)]
            cases = []
            per = 4 if quick else 8
            for d in descs:
                q = d["q"]
                sound = {(tuple(sorted(s["pk"])), s["tg"]) for s in d["sound"]}
                combos = [(pk, tg) for pk in PKS for tg in TGS if not unsupported(q, tg)]
                rng.shuffle(combos)
                for j, (pk, tg) in enumerate(combos[:per]):
                    cases.append({"kind": "plan", "n": d["n"], "q": q, "sql": render(q, (d["n"] + j) % 3), "tableSQL": TABLE_SQL[tg], "tg": tg,
                                  "partitionBy": pk, "N": rng.randint(1, 6), "points": datasets[(d["n"] + j) % len(datasets)], "now": 6, "ret": 6,
                                  "orderKeys": ORDER[q["order"]][1], "limited": q["lim"] != "none",
                                  "sound": (tuple(sorted(pk)), tg) in sound})
        f = os.path.join(work, "cases.ndjson")
        with open(f, "w") as fh:
            for c in cases:
                fh.write(json.dumps(c) + "\n")
        total, fails, lines = run_pure(bins["zvpure"], [f], work)
        print("[%s] zvpure: %s" % (pid, total), flush=True)
        known = V.listed("pushdown-applies-offset-on-every-partition")
        notes = [x for x in fails if "note" in x]
        fails = [x for x in fails if "fail" in x]
        disagreements = 0
        seen = {}
        for x in fails:
            case = x["case"]
            q = case["q"]
            disagreements += 1
            # D11: a query with an OFFSET that is pushed down whole
            if known and q["lim"] == "l2o1" and "pushdown=true" in x["fail"]:
                V.known_finding(known)
                continue
            key = json.dumps([q[k] for k in ("where", "gb", "ctab", "having", "from")]) + x["fail"].split(":")[0][:40]
            if key in seen:
                continue
            seen[key] = 1
            if len(seen) <= 12:
                rp = common.save_replay(pid, "case%d" % len(seen), {"case": case, "fail": x["fail"]})
                V.violation(rp, "`%s`: %s" % (case["sql"].replace("\n", " "), x["fail"][:400]))
        if notes:
            V.notes.append("%d queries were pushed down whole although GenPlan!PushdownSound does not hold for them (no row difference observed in those runs)" % len(notes))
        kinds = total["Kinds"]
        cov = {"programs": len(cases), "disagreements_checked": disagreements,
               "evaluations": total["Evaluations"], "distinct_nontrivial": kinds.get("plan.rows>1", 0),
               "pushdown_plans": kinds.get("plan.pushdown", 0), "non_pushdown_plans": kinds.get("plan.nonpushdown", 0),
               "local_plan_errors": kinds.get("plan.localerr", 0), "pushdown_without_spec_condition": kinds.get("plan.pushdown.unsound", 0),
               "rule": "a program = one query descriptor of spec/GenPlan.tla (select list x WHERE incl. a string literal and IN-sub-queries containing "
                       "clause keywords x GROUP BY dims / expression / none x period x CROSSTAB x HAVING x ORDER BY x LIMIT/OFFSET x FROM table or "
                       "sub-query) rendered in one of three lexical variants, with a partition-key set, a table grouping, N in 1..6 and a "
                       "dataset; non-trivial = the local plan returns more than one row",
               "samples": [{"sql": c["sql"], "partitionBy": c["partitionBy"], "N": c["N"], "table": c["tableSQL"], "points": len(c["points"])} for c in cases[:3]],
               "generated": counts, "exhaustive": not quick}
        rc = V.finish()
        common.write_evidence(pid, "translation_validation", cov,
                              ["both plans are produced by the real planner.Plan; the partitions are mock planner.Table implementations holding the rows "
                               "aggregated from the points routed to them (by the partition keys, or by all dimensions when there are none); the "
                               "cluster fan-out is a sequential loop over the partitions (the real fan-out is C10 / C13)",
                               "values are small integers; LIMIT without a total order compares row counts; with ORDER BY the sequences of sort keys",
                               "a query whose local plan fails is not compared"], time.time() - t0, len(V.violations))
        return rc
    finally:
        shutil.rmtree(work, ignore_errors=True)


CHECKS = {"C11": check_C11}
