"""Small helpers to render Python values as TLA+ expressions and to run TLC."""
import json, os, re, shutil, subprocess, tempfile, time

SPEC = os.path.join(os.path.dirname(os.path.dirname(os.path.abspath(__file__))), "spec")


def tla(v):
    if isinstance(v, bool):
        return "TRUE" if v else "FALSE"
    if isinstance(v, int):
        return str(v)
    if isinstance(v, str):
        return json.dumps(v)
    if isinstance(v, (list, tuple)):
        return "<<" + ", ".join(tla(x) for x in v) + ">>"
    if isinstance(v, (set, frozenset)):
        return "{" + ", ".join(tla(x) for x in sorted(v, key=repr)) + "}"
    if isinstance(v, dict):
        if not v:
            return "<<>>"
        return "[" + ", ".join("%s |-> %s" % (k, tla(x)) for k, x in v.items()) + "]"
    raise TypeError(repr(v))


class TLCResult:
    def __init__(self, rc, out, wall):
        self.rc, self.out, self.wall = rc, out, wall
        m = re.search(r"(\d+) states generated, (\d+) distinct states found", out)
        self.generated = int(m.group(1)) if m else 0
        self.distinct = int(m.group(2)) if m else 0
        self.ok = "Model checking completed. No error has been found." in out or \
                  ("Finished in" in out and "Error:" not in out)
        self.violated = re.findall(r"Error: Invariant (\w+) is violated", out) + \
                        re.findall(r"Error: Action property (\w+) is violated", out)


def run_tlc(module_text, module_name, cfg_text, workdir, workers=8, timeout=1800,
            extra=(), env=None, java_opts=None):
    """Copies the spec directory into workdir, adds the generated module + cfg, runs TLC."""
    os.makedirs(workdir, exist_ok=True)
    for f in os.listdir(SPEC):
        if f.endswith(".tla"):
            shutil.copy(os.path.join(SPEC, f), workdir)
    with open(os.path.join(workdir, module_name + ".tla"), "w") as f:
        f.write(module_text)
    with open(os.path.join(workdir, module_name + ".cfg"), "w") as f:
        f.write(cfg_text)
    e = dict(os.environ)
    if env:
        e.update(env)
    if java_opts:
        e["JAVA_TOOL_OPTIONS"] = java_opts
    cmd = ["timeout", str(timeout), "tlc", "-workers", str(workers), "-metadir",
           os.path.join(workdir, "meta"), "-config", module_name + ".cfg"] + list(extra) + [module_name + ".tla"]
    t0 = time.time()
    p = subprocess.run(cmd, cwd=workdir, env=e, stdout=subprocess.PIPE, stderr=subprocess.STDOUT, text=True)
    return TLCResult(p.returncode, p.stdout, time.time() - t0)
