"""Universe shared by the Store-family checks: how abstract points, keys,
WHERE ids and field ids of spec/Store.tla are rendered as concrete zenodb
dimensions, values and SQL, and the generated TLA+ constant modules."""
import json, os, random
from tla import tla

STREAM = "inbound"

# point keys: k -> dimensions.  A value has one Go type throughout (a = 1 is
# always an int, a = 0 always a float64): zenodb keys are type-tagged, and the
# canonical key strings used here could not tell int 1 from float 1 apart.
KEYS = {
    1: {"a": 0, "b": "x"},
    2: {"a": {"$": "int", "v": 1}, "b": "x"},
    3: {"a": 0, "b": "y"},
    4: {"a": {"$": "int", "v": 1}, "b": "y"},
    # mixed scalar types, extra, missing and explicitly nil dimensions (C01)
    5: {"a": 0, "b": "y", "c": True},
    6: {"a": 1.5, "b": "x"},
    7: {"b": "y"},
    8: {"a": None, "b": "x"},
    9: {"a": {"$": "int", "v": 1}, "b": "x", "c": False, "d": {"$": "time", "v": 3}},
    10: {"a": None},                 # byte-prefix of key 8's encoding
    11: {"a": {"$": "int", "v": 1}, "b": "y", "c": True, "e": {"$": "u8", "v": 7}},
    # more values per dimension (cluster checks: spread over partitions)
    12: {"a": {"$": "int", "v": 2}, "b": "x"},
    13: {"a": {"$": "int", "v": 3}, "b": "y"},
    14: {"a": {"$": "int", "v": 4}, "b": "z"},
    15: {"a": {"$": "int", "v": 5}, "b": "y"},
    16: {"a": {"$": "int", "v": 6}, "b": "q"},
    17: {"a": {"$": "int", "v": 7}, "b": "y"},
    18: {"a": {"$": "int", "v": 2}, "b": "y"},
    19: {"a": {"$": "int", "v": 3}, "b": "zz"},
}
CLUSTER_KEYS = [1, 2, 3, 4, 12, 13, 14, 15, 16, 17, 18, 19]
BASIC_KEYS = [1, 2, 3, 4]
# WHERE ids: sql text (None = no WHERE) and the predicate evaluated here,
# independently of zenodb
WHERES = {
    "all": (None, lambda d: True),
    "by": ("b = 'y'", lambda d: d.get("b") == "y"),
    "a1": ("a = 1", lambda d: d.get("a") == 1),
    "bx": ("b = 'x'", lambda d: d.get("b") == "x"),
    "a1by": ("a = 1 AND b = 'y'", lambda d: d.get("a") == 1 and d.get("b") == "y"),
    "ct": ("c = TRUE", lambda d: d.get("c") is True),
}
# predicates for query-level WHERE (C08); evaluated here on the stored row's
# key, i.e. on the dimensions the table groups by
# NULL handling follows goexpr (the trusted base for the truth of an atomic
# predicate): nil equals nothing, differs from everything, and sorts below
# every value; LIKE without wildcards is case-insensitive equality.
def _num(v):
    return isinstance(v, (int, float)) and not isinstance(v, bool)


QPREDS = {
    "qa1": ("a = 1", lambda d: d.get("a") == 1),
    "qby": ("b = 'y'", lambda d: d.get("b") == "y"),
    "qand": ("a = 1 AND b = 'y'", lambda d: d.get("a") == 1 and d.get("b") == "y"),
    "qor": ("a = 1 OR b = 'x'", lambda d: d.get("a") == 1 or d.get("b") == "x"),
    "qne": ("b <> 'x'", lambda d: d.get("b") != "x"),
    "qnull": ("b IS NULL", lambda d: d.get("b") is None),
    "qnotnull": ("a IS NOT NULL", lambda d: d.get("a") is not None),
    "qin": ("b IN ('y', 'z')", lambda d: d.get("b") in ("y", "z")),
    "qlike": ("b LIKE 'X'", lambda d: d.get("b") == "x"),
    "qlikep": ("b LIKE '%y%'", lambda d: isinstance(d.get("b"), str) and "y" in d.get("b")),
    "qlt": ("a < 1", lambda d: d.get("a") is None or (_num(d.get("a")) and d.get("a") < 1)),
    "qgt": ("a > 0", lambda d: _num(d.get("a")) and d.get("a") > 0),
    "qnest": ("(a = 0 OR a = 1) AND b = 'x'", lambda d: d.get("a") in (0, 1) and d.get("b") == "x"),
    "qnot": ("NOT (a = 1)", lambda d: not (d.get("a") == 1)),
    "qnotand": ("NOT (a = 1 AND b = 'y')", lambda d: not (d.get("a") == 1 and d.get("b") == "y")),
    "qnotin": ("NOT (b IN ('x', 'z'))", lambda d: d.get("b") not in ("x", "z")),
}


def parse_key(keystr):
    """Dimensions of a canonical key string (values as the generators wrote them)."""
    out = {}
    for part in keystr.split(","):
        if not part:
            continue
        k, v = part.split("=", 1)
        if v == "<nil>":
            out[k] = None
        elif v in ("true", "false"):
            out[k] = v == "true"
        else:
            try:
                out[k] = int(v)
            except ValueError:
                try:
                    out[k] = float(v)
                except ValueError:
                    out[k] = v
    return out


def keysat(tables):
    keys = set()
    for t in tables:
        for k in KEYS:
            keys.add(t.proj(k))
    return {k: set(q for q, (_, pred) in QPREDS.items() if pred(parse_key(k))) for k in sorted(keys)}
# field ids: SQL and the value they aggregate
FIELDS = {
    "f": ("SUM(w) AS f", "w"),
    "g": ("SUM(x) AS g", "x"),
    # (two fields of one table never share an expression: a query field is fed
    # by every table field with the same expression text, see DESIGN.md)
    "h": ("SUM(y) AS h", "y"),
    "i": ("SUM(z) AS i", "z"),
}
# non-decodable fields (reported as plain values, no cells in the specification)
RAWDEFS = {
    "pc": "PERCENTILE(v, 90, 0, 100, 1)",     # wide accumulator: shifts byte layouts
    "mxv": "MAX(v)",
    "avv": "AVG(v)",
}
SRC = dict({"p": "_point"}, **{k: v[1] for k, v in FIELDS.items()})
SRC.update({k: "none" for k in RAWDEFS})


def plain(v):
    """Python value of a typed dimension value."""
    if isinstance(v, dict):
        return "T%d" % v["v"] if v["$"] == "time" else v["v"]
    return v


def plain_dims(d):
    return {k: plain(v) for k, v in d.items()}


def fmt_val(v):
    if v is None:
        return "<nil>"
    if isinstance(v, dict):
        if v["$"] == "time":
            return "T%d" % v["v"]
        return fmt_val(v["v"])
    if isinstance(v, bool):
        return "true" if v else "false"
    if isinstance(v, float) and v == int(v):
        return str(int(v))
    return str(v)


def key_string(d):
    return ",".join("%s=%s" % (k, fmt_val(d[k])) for k in sorted(d))


class Table:
    def __init__(self, name, fields=("f",), where="all", group=("a",), res=2, ret=1000,
                 view_of=None, max_flush_ms=0, raw=None, view_where=None, partition_by=()):
        self.name, self.fields, self.where = name, list(fields), where
        self.group, self.res, self.ret, self.view_of = list(group), res, ret, view_of
        self.max_flush_ms = max_flush_ms
        self.raw = dict(raw or {})          # extra (non-decodable) fields: name -> SQL
        self.view_where = view_where        # for a view: the WHERE written in its own SQL
        self.partition_by = list(partition_by)

    def flds(self):
        return ["p"] + self.fields

    def sql(self):
        if self.view_of:
            sel = ", ".join(self.fields)
        else:
            sel = ", ".join([FIELDS[f][0] if f in FIELDS else "%s AS %s" % (RAWDEFS[f], f) for f in self.fields]
                            + ["%s AS %s" % (e, n) for n, e in self.raw.items()])
        frm = self.view_of or STREAM
        w = WHERES[self.view_where if self.view_of else self.where][0]
        s = "SELECT %s FROM %s" % (sel, frm)
        if w:
            s += " WHERE " + w
        s += " GROUP BY " + ", ".join(self.group + ["period(%ds)" % self.res])
        return s

    def altered(self, fields=None, where=None):
        """A copy of this table with another field list and/or WHERE."""
        t = Table(self.name, fields=self.fields if fields is None else fields,
                  where=self.where if where is None else where, group=self.group, res=self.res, ret=self.ret,
                  view_of=self.view_of, max_flush_ms=self.max_flush_ms, raw=self.raw, view_where=self.view_where,
                  partition_by=self.partition_by)
        return t

    def proj(self, k):
        d = plain_dims(KEYS[k])
        if not self.group:
            return key_string(d)
        return key_string({g: d[g] for g in self.group if d.get(g) is not None})

    def define(self):
        return {"name": self.name, "sql": self.sql(), "view": bool(self.view_of), "ret": self.ret,
                "maxFlushMs": self.max_flush_ms,
                # after its first flush a row store re-arms its timer with 10x the
                # flush duration clamped to [min, max]; keep timer flushes out of
                # gated runs
                "minFlushMs": 0 if self.max_flush_ms else 86400000,
                "raw": sorted(list(self.raw) + [f for f in self.fields if f in RAWDEFS]),
                "partitionBy": self.partition_by,
                "abs": {"w": self.where, "fs": self.flds()}}


def sat_of(k):
    return sorted(w for w, (_, pred) in WHERES.items() if pred(plain_dims(KEYS[k])))


def point(pid, ts, k, vs=("w",), n=1, num=None):
    """num: small integer values for the non-decodable value names (v, u)."""
    p = {"id": pid, "ts": ts, "k": k, "sat": sat_of(k), "vs": sorted(set(vs) | set(num or {})), "n": n}
    if num:
        p["num"] = num
    return p


def tla_point(p):
    """The point as a TLA+ value (sat and vs are sets there)."""
    q = {k: v for k, v in p.items() if k != "num"}
    q["sat"] = set(p["sat"])
    q["vs"] = set(p["vs"])
    return q


def render_insert(p, int_vals=False):
    """Insert command for abstract point p."""
    w = float(4 ** p["id"])
    vals = {}
    for v in p["vs"]:
        if v in p.get("num", {}):
            vals[v] = {"$": "int", "v": p["num"][v]} if int_vals else float(p["num"][v])
            continue
        if v == "w" and p["n"] > 1:
            vals[v] = {"$": "ints" if int_vals else "floats", "v": [w] * p["n"]}
        else:
            vals[v] = {"$": "int", "v": w} if int_vals else w
    if not p["vs"]:
        vals["w"] = "nonnumeric%d" % p["id"]
    return {"a": "Insert", "p": p, "dims": KEYS[p["k"]], "vals": vals}


BY_NAMES = ["*", "", "a", "b", "a,b"]


def project_key(keystr, by):
    """Projection of a canonical key string onto the dimension subset `by'."""
    if by == "*":
        return keystr
    want = set(by.split(",")) if by else set()
    parts = [p for p in keystr.split(",") if p and p.split("=")[0] in want]
    return ",".join(parts)


def gproj(tables):
    keys = set()
    for t in tables:
        for k in KEYS:
            keys.add(t.proj(k))
    return {by: {k: project_key(k, by) for k in sorted(keys)} for by in BY_NAMES}


def constants_module(name, extends, tables, extra=None):
    """TLA+ module `name' EXTENDS `extends' defining the c_* constant operators
    for the given tables (and extra definitions), plus the matching cfg lines."""
    defs = {
        "c_Tables": set(t.name for t in tables),
        "c_Res": {t.name: t.res for t in tables},
        "c_Ret": {t.name: t.ret for t in tables},
        "c_Proj": {t.name: [t.proj(k) for k in sorted(KEYS)] for t in tables},
        "c_InitWhere": {t.name: t.where for t in tables},
        "c_InitFlds": {t.name: t.flds() for t in tables},
        "c_Src": SRC,
    }
    if extends.startswith("Trace"):
        defs["c_GProj"] = RawTLA(tla_fn(gproj(tables)))
        defs["c_KeySat"] = RawTLA(tla_fn(keysat(tables)))
    if extra:
        defs.update(extra)
    lines = ["---- MODULE %s ----" % name, "EXTENDS %s" % extends]
    for k, v in defs.items():
        lines.append("%s == %s" % (k, v if isinstance(v, RawTLA) else tla(v)))
    lines.append("====")
    cfg = ["CONSTANTS"]
    for k in defs:
        cfg.append("  %s <- %s" % (k[2:], k))
    return "\n".join(lines) + "\n", "\n".join(cfg) + "\n"


class RawTLA(str):
    pass


def tla_fn(d):
    """A (nested) dict with arbitrary string keys as a TLA+ function."""
    if not isinstance(d, dict):
        return tla(d)
    if not d:
        return "<<>>"
    return "(" + " @@ ".join("%s :> %s" % (tla(k), tla_fn(v)) for k, v in d.items()) + ")"
