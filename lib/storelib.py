"""Universe shared by the Store-family checks: how abstract points, keys,
WHERE ids and field ids of spec/Store.tla are rendered as concrete zenodb
dimensions, values and SQL, and the generated TLA+ constant modules."""
import json, os, random
from tla import tla

STREAM = "inbound"

# point keys: k -> dimensions
KEYS = {
    1: {"a": 0, "b": "x"},
    2: {"a": 1, "b": "x"},
    3: {"a": 0, "b": "y"},
    4: {"a": 1, "b": "y"},
}
# WHERE ids: sql text (None = no WHERE) and the predicate evaluated here,
# independently of zenodb
WHERES = {
    "all": (None, lambda d: True),
    "by": ("b = 'y'", lambda d: d.get("b") == "y"),
    "a1": ("a = 1", lambda d: d.get("a") == 1),
    "bx": ("b = 'x'", lambda d: d.get("b") == "x"),
}
# field ids: SQL and the value they aggregate
FIELDS = {
    "f": ("SUM(w) AS f", "w"),
    "g": ("SUM(x) AS g", "x"),
    "h": ("SUM(w) AS h", "w"),
    "i": ("SUM(x) AS i", "x"),
}
SRC = dict({"p": "_point"}, **{k: v[1] for k, v in FIELDS.items()})


def fmt_val(v):
    if v is None:
        return "<nil>"
    if isinstance(v, bool):
        return "true" if v else "false"
    if isinstance(v, float) and v == int(v):
        return str(int(v))
    return str(v)


def key_string(d):
    return ",".join("%s=%s" % (k, fmt_val(d[k])) for k in sorted(d))


class Table:
    def __init__(self, name, fields=("f",), where="all", group=("a",), res=2, ret=1000,
                 view_of=None, max_flush_ms=0):
        self.name, self.fields, self.where = name, list(fields), where
        self.group, self.res, self.ret, self.view_of = list(group), res, ret, view_of
        self.max_flush_ms = max_flush_ms

    def flds(self):
        return ["p"] + self.fields

    def sql(self):
        sel = ", ".join(FIELDS[f][0] for f in self.fields)
        frm = self.view_of or STREAM
        w = WHERES[self.where][0]
        s = "SELECT %s FROM %s" % (sel, frm)
        if w:
            s += " WHERE " + w
        s += " GROUP BY " + ", ".join(self.group + ["period(%ds)" % self.res])
        return s

    def proj(self, k):
        d = KEYS[k]
        if not self.group:
            return key_string(d)
        return key_string({g: d[g] for g in self.group if d.get(g) is not None})

    def define(self):
        return {"name": self.name, "sql": self.sql(), "view": bool(self.view_of), "ret": self.ret,
                "maxFlushMs": self.max_flush_ms, "abs": {"w": self.where, "fs": self.flds()}}


def sat_of(k):
    return sorted(w for w, (_, pred) in WHERES.items() if pred(KEYS[k]))


def point(pid, ts, k, vs=("w",), n=1):
    return {"id": pid, "ts": ts, "k": k, "sat": sat_of(k), "vs": sorted(vs), "n": n}


def tla_point(p):
    """The point as a TLA+ value (sat and vs are sets there)."""
    q = dict(p)
    q["sat"] = set(p["sat"])
    q["vs"] = set(p["vs"])
    return q


def render_insert(p, int_vals=False):
    """Insert command for abstract point p."""
    w = float(4 ** p["id"])
    vals = {}
    for v in p["vs"]:
        if v == "w" and p["n"] > 1:
            vals[v] = {"$": "ints" if int_vals else "floats", "v": [w] * p["n"]}
        else:
            vals[v] = {"$": "int", "v": w} if int_vals else w
    if not p["vs"]:
        vals["w"] = "nonnumeric%d" % p["id"]
    return {"a": "Insert", "p": p, "dims": KEYS[p["k"]], "vals": vals}


def constants_module(name, extends, tables, extra=None):
    """TLA+ module `name' EXTENDS `extends' defining the c_* constant operators
    for the given tables (and extra definitions), plus the matching cfg lines."""
    defs = {
        "c_Tables": set(t.name for t in tables),
        "c_Res": {t.name: t.res for t in tables},
        "c_Ret": {t.name: t.ret for t in tables},
        "c_Proj": {t.name: [t.proj(k) for k in sorted(KEYS)] for t in tables},
        "c_InitWhere": {t.name: t.where for t in tables},
        "c_InitFlds": {t.name: t.flds() for t in tables},
        "c_Src": SRC,
    }
    if extra:
        defs.update(extra)
    lines = ["---- MODULE %s ----" % name, "EXTENDS %s" % extends]
    for k, v in defs.items():
        lines.append("%s == %s" % (k, v if isinstance(v, RawTLA) else tla(v)))
    lines.append("====")
    cfg = ["CONSTANTS"]
    for k in defs:
        cfg.append("  %s <- %s" % (k[2:], k))
    return "\n".join(lines) + "\n", "\n".join(cfg) + "\n"


class RawTLA(str):
    pass
