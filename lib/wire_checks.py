"""C20 (spec/Wire.tla): data crossing the rpc boundary keeps its meaning.
(i) expressions, field lists, rows, series and messages through the real
rpc.Codec (zvpure, kinds codec.*), (ii) queries embedded vs through the rpc
client vs through a leader whose partitions answer over rpc (zvwire), (iii) the
messages of every remote query validated against spec/TraceWire.tla."""
import json, os, random, re, shutil, time
import common
from common import Verdict, InfraError
from tla import run_tlc, tla
from storelib import *
from cluster_checks import cluster_tables, order_ok
from pure_checks import gen_cases, run_pure
import querygen

FIXED_Q = ["SELECT * FROM a", "SELECT f FROM a GROUP BY b, period(4s)", "SELECT f, g FROM a GROUP BY a HAVING f > 16",
           "SELECT f FROM a GROUP BY a ORDER BY f DESC LIMIT 2", "SELECT f FROM a WHERE b IN (SELECT b FROM b) GROUP BY a",
           # a sub-query whose result differs from partition to partition: the leader's (complete) result must travel with the query
           "SELECT f FROM a WHERE a IN (SELECT a FROM a WHERE b = 'y' GROUP BY a) GROUP BY a, b",
           "SELECT f FROM a GROUP BY CROSSTAB(b), a", "SELECT f / _points AS avgf, _points FROM a GROUP BY b",
           "SELECT SHIFT(f, '-2s') AS sh, f FROM a GROUP BY a", "SELECT f FROM (SELECT f, g FROM a GROUP BY a, b) GROUP BY b",
           "SELECT f FROM b", "SELECT f FROM a WHERE a = 1 OR b = 'x'", "SELECT f FROM a ASOF '-6s' UNTIL '-1s' GROUP BY a",
           # values at the edge of what a float64 holds: x / 0 and sums beyond the int64 range
           "SELECT f / g AS ratio, f FROM a GROUP BY a", "SELECT f * 4611686018427387904 AS big, f FROM a GROUP BY b",
           "SELECT g / f AS r2, f / (g - g) AS r3 FROM a"]


def wire_scenario(scn, rng, P, variant, nq, faults=False):
    tabs = cluster_tables(variant=variant)
    pts = []
    n = rng.randint(8, 14)
    for i in range(n):
        k = rng.choice(CLUSTER_KEYS)
        vals = {"w": 4 ** i}
        if rng.random() < 0.6:
            vals["x"] = 4 ** i
        pts.append({"ts": rng.randint(1, 8), "dims": KEYS[k], "vals": vals})
    qs = []
    pool = list(FIXED_Q)
    rng.shuffle(pool)
    must = [q for q in FIXED_Q if " IN (SELECT" in q and q not in pool[:nq // 2]]
    for q in pool[:nq // 2] + must + [q for q in FIXED_Q[-3:] if q not in pool[:nq // 2]][:2]:
        qs.append({"sql": q})
    while len(qs) < nq:
        q = querygen.gen_query(rng, tabs, now_hint=5)
        if "SUM(" in q:
            continue
        qs.append({"sql": q})
    if faults:
        # the rpc part of C13: a follower fails after k rows, with the failure in its closing message
        fq = []
        for q in qs[:max(2, nq // 2)]:
            fq.append(dict(q))
            fq.append(dict(q, fault="err", part=rng.randrange(P), after=rng.choice([0, 1, 1, 2])))
        qs = fq
    for i, q in enumerate(qs):
        q["id"] = "q%d" % i
    return {"scn": scn, "tables": [t.define() for t in tabs], "partitions": P, "points": pts, "queries": qs}


def rowkey(r):
    return json.dumps({"k": r["k"], "p": r["p"], "v": r["v"]}, sort_keys=True)


def same_rows(a, b, sql):
    ordered = "ORDER BY" in sql
    limited = "LIMIT" in sql
    if limited and not ordered:
        return len(a) == len(b)
    if ordered and limited:
        return len(a) == len(b) and order_ok(a, b, sql)
    if ordered:
        return sorted(map(rowkey, a)) == sorted(map(rowkey, b)) and order_ok(a, b, sql)
    return sorted(map(rowkey, a)) == sorted(map(rowkey, b))


def sessions_of(lines):
    """Remote-query sessions: per partition the k-th leader session and the
    k-th follower session belong together; events merged by sequence number."""
    by = {}
    for l in lines:
        if l["a"] != "Msg":
            continue
        by.setdefault((l["part"], l["side"], l["q"]), []).append(l)
    per_part = {}
    for (part, side, q), evs in by.items():
        per_part.setdefault((part, side), []).append(sorted(evs, key=lambda e: e["seq"]))
    out = []
    for part in sorted(set(p for p, _ in per_part)):
        ls = sorted(per_part.get((part, "leader"), []), key=lambda s: s[0]["seq"])
        fs = sorted(per_part.get((part, "follower"), []), key=lambda s: s[0]["seq"])
        used = set()
        for lsess in ls:
            # the follower session that answers this one: same partition, same query text,
            # begun after the leader asked (sub-queries of one WHERE run concurrently)
            text = next((e["d"] for e in lsess if e["kind"] == "query"), None)
            fsess = []
            for i, cand in enumerate(fs):
                # (it begins after the leader asked and before the leader's handler returned: a
                # handler whose connection is gone returns an error without reaching any follower)
                if i in used or cand[0]["seq"] < lsess[0]["seq"] or cand[0]["seq"] > lsess[-1]["seq"]:
                    continue
                if next((e["d"] for e in cand if e["kind"] == "query"), None) == text:
                    used.add(i)
                    fsess = cand
                    break
            out.append((part, sorted(lsess + fsess, key=lambda e: e["seq"])))
    return out


def validate_wire(traces, workdir):
    """TLC: every session is a behaviour of spec/Wire.tla (TraceWire)."""
    os.makedirs(workdir, exist_ok=True)
    path = os.path.join(workdir, "wire.ndjson")
    index = []
    with open(path, "w") as f:
        for scn, lines in traces.items():
            for si, (part, evs) in enumerate(sessions_of(lines)):
                ses = "%s/p%d/%d" % (scn, part, si)
                f.write(json.dumps({"a": "Reset", "ses": ses, "side": "", "kind": "", "d": ""}) + "\n")
                index.append((ses, None))
                for e in evs:
                    # (a query message is its text and everything else it carries: QueryIntact covers both)
                    f.write(json.dumps({"a": "Msg", "ses": ses, "side": e["side"], "kind": e["kind"], "d": e["d"] + ("\x1f" + e["m"] if e.get("m") else "")}) + "\n")
                    index.append((ses, e))
    if not index:
        return {}, [], 0, 0
    mod = "---- MODULE WireRun ----\nEXTENDS TraceWire\n====\n"
    cfg = "SPECIFICATION TraceSpec\nCONSTANTS Digests = {} MaxRows = 100000\nINVARIANT Done\nCHECK_DEADLOCK FALSE\n"
    r = run_tlc(mod, "WireRun", cfg, workdir, workers=1, timeout=1800, env={"ZV_TRACE": path}, java_opts="-Xss64m -Xmx3g")
    m = re.search(r'<<"ZVTRACE", "(.*)">>', r.out)
    if not m:
        open(os.path.join(common.SCRATCH_ROOT, "last_tlc_failure.out"), "w").write(r.out)
        raise InfraError("wire trace validation did not finish:\n" + r.out[-1500:])
    rep = json.loads(json.loads('"' + m.group(1) + '"'))
    fails = {}
    for fl in rep["fails"]:
        ses, ev = index[fl["at"] - 1]
        fails[ses] = {"line": fl["at"], "event": ev, "state": fl}
    nses = sum(1 for s, e in index if e is None)
    return fails, rep["viol"], nses, len(index)


def value_cases(rng, n):
    out = []
    pool = ["x", "", "ü☃", 0, 1, -3, 2.5, 1e12, True, False, None]
    for i in range(n):
        dims = {rng.choice(["a", "b", "c", "long_dimension_name"]): rng.choice([p for p in pool if p is not None]) for _ in range(rng.randint(1, 4))}
        vals = {"w%d" % j: float(rng.randint(-5, 50)) for j in range(rng.randint(1, 4))}
        sub = [[rng.choice(pool) for _ in range(rng.randint(0, 4))] for _ in range(rng.randint(0, 3))]
        out.append({"kind": "codec.value", "dims": dims, "vals": vals, "ts": rng.randint(0, 100), "sub": sub})
    return out


def judge_wire(pid, V, sc, lines, stats, rpc_faults_as_c13=False):
    herr = [l for l in lines if l["a"] == "HarnessError"]
    if herr:
        stats["harness_errors"] += 1
        V.notes.append("%s: harness error %s" % (sc["scn"], json.dumps(herr[0])[:240]))
        return
    crash = [l for l in lines if l["a"] == "ProcessCrash"]
    if crash:
        if not crash[0]["in_database_code"]:
            # the driver itself went down in this scenario: no verdict for it
            stats["harness_errors"] += 1
            V.notes.append("%s: the driver crashed (%s at %s): not judged" % (sc["scn"], crash[0]["panic"][:120], crash[0]["top_frame"]))
            return
        rp = common.save_replay(pid, sc["scn"], {"wire": sc, "kind": "process-crash", "panic": crash[0]})
        V.violation(rp, "%s: the process crashed: panic: %s" % (sc["scn"], crash[0]["panic"]))
        return
    for l in lines:
        if l["a"] != "WireQuery":
            continue
        sql = l["sql"]
        stats["queries"] += 1
        if "embeddedErr" in l:
            stats["embedded_errors"] += 1
            if "rpcErr" not in l:
                rp = common.save_replay(pid, "%s-%s-rpcok" % (sc["scn"], l["id"]), {"wire": dict(sc, queries=[q for q in sc["queries"] if q["id"] == l["id"]]), "observed": l})
                V.violation(rp, "%s: `%s` fails embedded (%s) but succeeds through the rpc client" % (sc["scn"], sql, l["embeddedErr"]))
            continue
        if l["embedded"]:
            stats["with_rows"] += 1
        if l.get("fault"):
            # C13 over rpc: fewer rows than the fault-free answer must come with an error or missing-partition statistics
            stats["faulted"] += 1
            st_ = l.get("stats") or {}
            told = "clusterErr" in l or bool(st_.get("MissingPartitions")) or st_.get("NumSuccessfulPartitions", 0) < st_.get("NumPartitions", 0)
            complete = same_rows(l["cluster"], l["embedded"], sql)
            if not complete:
                stats["faulted_incomplete"] += 1
            if not complete and not told and " IN (SELECT" in sql and V.listed("subquery-partition-failure-not-reported"):
                # D13: the failure hit the follower while it answered the query's IN-sub-query
                V.known_finding(V.listed("subquery-partition-failure-not-reported"))
                continue
            if not complete and not told:
                rp = common.save_replay(pid, "%s-%s-silent" % (sc["scn"], l["id"]), {"wire": dict(sc, queries=[q for q in sc["queries"] if q["id"] == l["id"]]), "observed": l})
                V.violation(rp, "%s: `%s` with the follower of partition %d failing after %d rows (over rpc) returned %d of %d rows and the caller was not told (no error, statistics %s)"
                            % (sc["scn"], sql, l["part"], l["after"], len(l["cluster"]), len(l["embedded"]), st_))
            continue
        if "rpcErr" in l or not same_rows(l["rpc"], l["embedded"], sql):
            rp = common.save_replay(pid, "%s-%s-rpc" % (sc["scn"], l["id"]), {"wire": dict(sc, queries=[q for q in sc["queries"] if q["id"] == l["id"]]), "observed": l})
            V.violation(rp, "%s: `%s` answered through the rpc client returns %d rows%s, embedded %d rows"
                        % (sc["scn"], sql, len(l["rpc"]), " (error: %s)" % l["rpcErr"] if "rpcErr" in l else "", len(l["embedded"])))
        st_ = l.get("stats") or {}
        if st_.get("MissingPartitions") or st_.get("NumSuccessfulPartitions", 0) < st_.get("NumPartitions", 0):
            stats["reported_incomplete"] += 1
            continue
        if "clusterErr" in l or not same_rows(l["cluster"], l["embedded"], sql):
            rp = common.save_replay(pid, "%s-%s-cluster" % (sc["scn"], l["id"]), {"wire": dict(sc, queries=[q for q in sc["queries"] if q["id"] == l["id"]]), "observed": l})
            V.violation(rp, "%s: `%s` answered by followers over rpc on behalf of the leader returns %d rows%s, embedded %d rows"
                        % (sc["scn"], sql, len(l["cluster"]), " (error: %s)" % l["clusterErr"] if "clusterErr" in l else "", len(l["embedded"])))


def view_mismatches(sc, lines):
    """Per table: the partitions' cells together against the standalone database's."""
    from store_checks import rows_to_cells, diff_cells
    views = {}
    for l in lines:
        if l["a"] == "WireView":
            views.setdefault(l["t"], {})[l["node"]] = rows_to_cells(l["rows"])
    out = []
    for tn, nodes in views.items():
        total = {}
        for node, cells in nodes.items():
            if node != "standalone":
                for k, c in cells.items():
                    total[k] = total.get(k, 0) + c
        d = diff_cells(total, nodes.get("standalone", {}))
        if d:
            out.append((tn, d))
    return out, bool(views)


def rpc_follow_part(pid, V, rng, work, quick, stats_out):
    """C12 over the real rpc follow stream: followers whose stream is dropped and
    re-established (with the offset of the last entry received) while points arrive."""
    zb = common.build(("zvwire",))["zvwire"]
    scs = []
    for i in range(4 if quick else 24):
        sc = wire_scenario("drop%d" % i, rng, rng.choice([2, 3]), rng.randint(0, 3), 2)
        n = len(sc["points"])
        sc["drops"] = sorted([rng.randint(1, n - 1), rng.randrange(sc["partitions"])] for _ in range(rng.randint(1, 4)))
        scs.append(sc)
    tr = common.run_shards(zb, scs, os.path.join(work, "runrpc"), nproc=min(8, len(scs)), timeout=1800)
    suspects = {}
    drops = 0
    for sc in scs:
        lines = tr.get(sc["scn"], [])
        if any(l["a"] in ("HarnessError", "ProcessCrash") for l in lines):
            stats_out["rpc_harness_errors"] = stats_out.get("rpc_harness_errors", 0) + 1
            continue
        drops += sum(l["drops"] for l in lines if l["a"] == "WireDrops")
        mm, seen = view_mismatches(sc, lines)
        stats_out["rpc_follow_scenarios"] = stats_out.get("rpc_follow_scenarios", 0) + (1 if seen else 0)
        if mm:
            suspects[sc["scn"]] = (sc, mm)
    stats_out["rpc_stream_drops"] = drops
    if suspects:
        again = [dict(sc, scn="%s~%d" % (n, k)) for n, (sc, _) in suspects.items() for k in (1, 2)]
        tr2 = common.run_shards(zb, again, os.path.join(work, "runrpc2"), nproc=min(8, len(again)), timeout=1800)
        for n, (sc, mm) in suspects.items():
            shown = sum(1 for k in (1, 2) if view_mismatches(sc, tr2.get("%s~%d" % (n, k), []))[0])
            tn, d = mm[0]
            k0 = sorted(d, key=repr)[0]
            text = ("%s: after the follow streams of %s were dropped and re-established (over rpc), the partitions of table %s together differ from "
                    "the standalone database on %d cell(s), e.g. %s partitions/standalone %s" % (n, [x[1] for x in sc["drops"]], tn, len(d), list(k0), d[k0]))
            if shown:
                rp = common.save_replay(pid, n + "-rpc-follow", {"wire": sc, "diff": [[list(x), d[x]] for x in sorted(d, key=repr)][:10]})
                V.violation(rp, text)
            else:
                stats_out["rpc_unreproduced"] = stats_out.get("rpc_unreproduced", 0) + 1
                V.notes.append(text + " - did not show again in 2 re-executions: not counted")


def check_C20(args):
    t0 = time.time()
    pid = "C20"
    V = Verdict(pid)
    quick = common.tier() == "quick"
    rng = random.Random(common.seed() * 7331 + 20)
    bins = common.build(("zvpure", "zvwire"))
    work = common.scratch(pid)
    try:
        cov = {}
        scenarios = []
        case_files = []
        if args.replay:
            rp = json.load(open(args.replay))
            if "wire" in rp:
                scenarios = [rp["wire"]]
            else:
                f = os.path.join(work, "replay.ndjson")
                open(f, "w").write(json.dumps(rp["case"]) + "\n")
                case_files = [f]
        else:
            # the transport protocol on its own
            mod = "---- MODULE WireMC ----\nEXTENDS Wire\n====\n"
            cfg = ('SPECIFICATION Spec\nCONSTANTS Digests = {"a", "b"} MaxRows = %d\nINVARIANTS Lossless WellFormed ErrorReported QueryIntact\n'
                   'CHECK_DEADLOCK FALSE\n' % (3 if quick else 5))
            r = run_tlc(mod, "WireMC", cfg, os.path.join(work, "mc"), workers=8, timeout=900)
            if not r.ok:
                raise InfraError("Wire model checking failed:\n" + r.out[-1500:])
            cov["states"], cov["transitions"] = r.distinct, r.generated
            # (i) codec cases: the expression trees of GenExpr, and generated values
            jobs = [("GenExpr", dict(Depth2=False, MaxUps=2, Sample=3 if quick else 1), "leaf.ndjson"),
                    ("GenExpr", dict(Depth2=True, MaxUps=1, Sample=6 if quick else 2), "tree.ndjson")]
            f = os.path.join(work, "codec.ndjson")
            n_expr = 0
            with open(f, "w") as fh:
                for mod_, consts, name in jobs:
                    o = os.path.join(work, name)
                    gen_cases(mod_, consts, o, os.path.join(work, "gen-" + name))
                    for line in open(o):
                        if not line.strip():
                            continue
                        c = json.loads(line)
                        if c.get("kind", "expr") in ("", "expr"):
                            c["kind"] = "codec.expr"
                            fh.write(json.dumps(c) + "\n")
                            n_expr += 1
                for c in value_cases(rng, 300 if quick else 3000):
                    fh.write(json.dumps(c) + "\n")
            case_files = [f]
            print("[%s] %d expression cases + value cases for the codec at %.1fs" % (pid, n_expr, time.time() - t0), flush=True)
            # (ii) queries embedded / via rpc / via followers over rpc
            for i in range(6 if quick else 40):
                scenarios.append(wire_scenario("w%d" % i, rng, rng.choice([1, 2, 2, 3]), i % 6, 10 if quick else 20))
        total, fails = {"Cases": 0, "Evaluations": 0, "Kinds": {}}, []
        if case_files:
            total, fails, lines = run_pure(bins["zvpure"], case_files, work)
            print("[%s] zvpure: %s" % (pid, total), flush=True)
        seen = {}
        for x in fails:
            if "fail" not in x:
                continue
            key = x["fail"].split(":")[0][:50] + json.dumps((x["case"].get("e") or {}).get("k", ""))
            if key in seen:
                continue
            seen[key] = 1
            if len(seen) <= 10:
                rp = common.save_replay(pid, "codec%d" % len(seen), {"case": x["case"], "fail": x["fail"]})
                V.violation(rp, "codec: %s (case %s)" % (x["fail"][:300], json.dumps(x["case"])[:200]))
        stats = {k: 0 for k in ("harness_errors", "queries", "with_rows", "embedded_errors", "faulted", "faulted_incomplete", "reported_incomplete")}
        nses = nlines = 0
        if scenarios:
            traces = common.run_shards(bins["zvwire"], scenarios, os.path.join(work, "run"), nproc=min(8, len(scenarios)), timeout=1800)
            for sc in scenarios:
                judge_wire(pid, V, sc, traces.get(sc["scn"], []), stats)
            # (iii) the message sequences against the specification
            wfails, wviol, nses, nlines = validate_wire(traces, os.path.join(work, "tv"))
            for ses, info in list(wfails.items())[:6]:
                rp = common.save_replay(pid, "wire-" + re.sub(r"[^a-z0-9]+", "-", ses), {"wire": next(s for s in scenarios if s["scn"] == ses.split("/")[0]), "session": ses, "info": info})
                V.violation(rp, "remote query %s: message %s of the %s is not what the specification allows next (follower %s, leader %s, %d in flight): "
                                "the transport lost, reordered or changed a message" % (ses, (info["event"] or {}).get("kind"), (info["event"] or {}).get("side"),
                                                                                       info["state"]["fst"], info["state"]["lst"], info["state"]["inflight"]))
            for v in wviol[:6]:
                V.violation(common.save_replay(pid, "wire-inv-%s" % v["inv"], {"violation": v}), "remote query %s: %s does not hold at message %d" % (v["ses"], v["inv"], v["at"]))
            print("[%s] %d queries on %d scenarios, %d remote-query sessions (%d messages) validated at %.1fs" % (pid, stats["queries"], len(scenarios), nses, nlines, time.time() - t0), flush=True)
        cov.update({"evaluations": total["Evaluations"] + stats["queries"] * 3, "distinct_nontrivial": total["Kinds"].get("codec.expr", 0) + stats["with_rows"],
                    "rule": "codec: every expression tree enumerated by TLC from spec/GenExpr.tla (as in C05) travels in a field list through rpc.Codec and the decoded "
                            "expression is compared in text, width, accumulated state, value (Data!Eval) and merges with states of the original; generated "
                            "dimension/value maps over all scalar types, rows, series, points, follow and query messages are compared field by field. queries: "
                            "generated and fixed queries answered embedded, through the rpc client, and by follower databases over rpc on behalf of a leader "
                            "(points inserted through the rpc insert stream, followers fed by the rpc follow stream); non-trivial = a valid expression case or "
                            "a query returning rows",
                    "samples": [{"scn": s["scn"], "partitions": s["partitions"], "queries": [q["sql"] for q in s["queries"][:4]]} for s in scenarios[:2]],
                    "codec_cases": total["Cases"], "codec_by_kind": total["Kinds"], "queries": stats["queries"], "queries_with_rows": stats["with_rows"],
                    "remote_query_sessions_validated": nses, "messages_validated": nlines, "traces_validated_against_impl": nses,
                    "harness_errors": stats["harness_errors"], "exhaustive": False})
        rc = V.finish()
        common.write_evidence(pid, "exploration", cov,
                              ["all nodes of the rpc cluster live in one process and talk over 127.0.0.1 through the real gRPC client and server with the snappy connection",
                               "messages are logged by wrappers around the callbacks on both sides of the transport (before the rpc client sends, when the rpc server's "
                               "handler passes on); leader and follower sessions of a partition are paired by order",
                               "values are small integers (exact floats); PERCENTILE / LN / LOG / SHIFT leaves are compared by state and merge laws only"],
                              time.time() - t0, len(V.violations))
        if stats["harness_errors"] > max(1, len(scenarios) // 5):
            print("harness errors in %d scenarios" % stats["harness_errors"])
            return rc or 2
        return rc
    finally:
        shutil.rmtree(work, ignore_errors=True)


CHECKS = {"C20": check_C20}
