"""Checks of the Store family (spec/Store.tla): C01 C02 C03 ..."""
import json, os, random, re, shutil, sys, time
from storelib import *
from tla import run_tlc, tla
import common
from common import Verdict, InfraError

# Deviations of the pinned code that the specification names (DESIGN.md 3):
CODE_FLAGS = {"ArrayDup": True,       # D8: additional array values inserted twice
              "SplitApply": False}    # D6 (fixed): values of one entry were applied in separate critical sections


def flags_cfg(flags, trunc_every=10):
    return "  ArrayDup = %s\n  SplitApply = %s\n  TruncEvery = %d\n" % (
        tla(flags["ArrayDup"]), tla(flags["SplitApply"]), trunc_every)


# ---------------------------------------------------------------- generation

def random_menu(rng, n, ids_from=1, arrays=True, nonnumeric=True, ticks=(1, 8), keys=None, nums=False):
    menu = []
    for i in range(n):
        pid = ids_from + i
        k = rng.choice(keys or BASIC_KEYS)
        r = rng.random()
        if nonnumeric and r < 0.08:
            vs, nn = (), 1
        elif arrays and r < 0.35:
            vs, nn = rng.choice([("w",), ("w", "x")]), 2
        else:
            vs, nn = rng.choice([("w",), ("w", "x"), ("x",), ("w",), ("w", "y"), ("w", "x", "y", "z"), ("y", "z")]), 1
        num = None
        if nums and vs:
            num = {}
            if rng.random() < 0.85:
                # (zero and negative values too: an accumulator that has seen a 0 is set)
                num["v"] = rng.choice([1, 2, 3, 4, 1, 2, 3, 4, 0, 0, -1, -3])
            if rng.random() < 0.7:
                num["u"] = rng.randint(1, 3)
            if rng.random() < 0.15:
                vs = ()          # a point carrying only v/u
        menu.append(point(pid, rng.randint(*ticks), k, vs=vs, n=nn, num=num))
    return menu


def sim_scripts(tables, menu, flags, num, depth, seed, workdir, max_flushes=4, max_crashes=2,
                allow_close=True, trunc_every=10, allow_crash=True, field_menu=None, where_menu=None, max_scans=0):
    """Behaviours of SimStore as lists of action records (TLC -simulate)."""
    mod, cfg = constants_module("SimRun", "SimStore", tables,
                                {"c_Menu": [tla_point(p) for p in menu], "c_Sorted": {False},
                                 "c_FieldMenu": {t.name: (field_menu or {}).get(t.name, []) for t in tables},
                                 "c_WhereMenu": {t.name: (where_menu or {}).get(t.name, []) for t in tables}})
    cfg = ("SPECIFICATION SimSpec\n" + cfg + flags_cfg(flags, trunc_every) +
           "  MaxFlushes = %d\n  MaxCrashes = %d\n  Depth = %d\n  AllowClose = %s\n  AllowCrash = %s\n  MaxScans = %d\n"
           "INVARIANT Emit\nCHECK_DEADLOCK FALSE\n" % (max_flushes, max_crashes, depth, tla(allow_close), tla(allow_crash), max_scans))
    r = run_tlc(mod, "SimRun", cfg, workdir, workers=1, timeout=600,
                extra=["-simulate", "num=%d" % num, "-depth", str(depth + 1), "-seed", str(seed)])
    hists = []
    for m in re.finditer(r'<<"ZVSIM", "(.*)">>', r.out):
        hists.append(json.loads(json.loads('"' + m.group(1) + '"')))
    if not hists:
        raise InfraError("TLC produced no behaviours:\n" + r.out[-3000:])
    return hists


def probes(tables, only=None, subsets=None):
    """Probe queries: all fields with and without the memstore; with `subsets'
    (a random.Random) also a query naming a random subset of the fields."""
    out = []
    for t in tables:
        if only and t.name != only:
            continue
        out.append({"a": "Query", "t": t.name, "mem": True})
        out.append({"a": "Query", "t": t.name, "mem": False})
        if subsets is not None:
            fs = [f for f in t.flds() if subsets.random() < 0.5] or [subsets.choice(t.flds())]
            out.append({"a": "Query", "t": t.name, "mem": subsets.random() < 0.8, "fields": fs})
    return out


def scenario_from_hist(scn, tables, menu, hist, opts=None, probe_every=True, int_vals=False, subsets=None,
                       others=None):
    """others: rng -> after every Probe / completed flush one or two generated
    queries are run (RunSQL), each followed by the probes."""
    import querygen
    cmds = []
    up = False
    cur = {t.name: t for t in tables}
    for h in hist:
        a = h["a"]
        if a in ("AlterFields", "AlterWhere"):
            old = cur[h["t"]]
            new = old.altered(fields=h["fs"][1:]) if a == "AlterFields" else old.altered(where=h["w"])
            cur[h["t"]] = new
            line = {"a": a, "t": h["t"]}
            line.update({"fs": h["fs"]} if a == "AlterFields" else {"w": h["w"]})
            cmds.append({"a": "Alter", "tables": [cur[t.name].define() for t in tables], "lines": [line],
                         "t": h["t"], "mem": a == "AlterFields"})
            if probe_every:
                cmds += probes([cur[t.name] for t in tables], only=h["t"])
            continue
        if a == "ScanBegin":
            cmds.append({"a": "ScanBegin", "t": h["t"], "mem": h["mem"], "pause": h["j"], "hold": bool(h.get("hold"))})
            continue
        if a == "ScanEnd":
            cmds.append({"a": "ScanEnd", "t": h["t"]})
            continue
        if a == "Insert":
            cmds.append(render_insert(menu[h["i"] - 1], int_vals=int_vals))
        elif a == "Probe":
            cmds += probes([cur[t.name] for t in tables], subsets=subsets)
            if others is not None:
                for _ in range(others.randint(1, 2)):
                    cmds.append({"a": "RunSQL", "sql": querygen.gen_query(others, tables), "mem": others.random() < 0.7})
                    cmds += probes([cur[t.name] for t in tables])
        elif a == "Start":
            cmds.append({"a": "Start"})
            up = True
            cmds += probes(tables)
        elif a in ("Crash", "Close"):
            cmds.append({"a": a})
            up = False
        else:
            c = {"a": a, "t": h["t"]}
            cmds.append(c)
            if probe_every:
                if a == "FlushSwap":
                    # the table is probed while its flush has installed the new file store and
                    # has not returned yet, and again once it has
                    c["holdDone"] = True
                    cmds += probes([cur[t.name] for t in tables], only=h["t"])
                    cmds.append({"a": "FlushDone", "t": h["t"]})
                cmds += probes([cur[t.name] for t in tables], only=h["t"], subsets=subsets if a == "FlushSwap" else None)
            if others is not None and a in ("FlushSwap", "Apply") and others.random() < 0.5:
                cmds.append({"a": "RunSQL", "sql": querygen.gen_query(others, tables), "mem": others.random() < 0.7})
                cmds += probes([cur[t.name] for t in tables])
    if not up:
        cmds.append({"a": "Start"})
    open_scans = []
    for h in hist:
        if h["a"] == "ScanBegin":
            open_scans.append(h["t"])
        elif h["a"] == "ScanEnd":
            open_scans.remove(h["t"])
    for t in open_scans:
        cmds.append({"a": "ScanEnd", "t": t})
    cmds.append({"a": "Settle"})
    cmds += probes(tables)
    o = {"tickMs": 1000, "stream": STREAM}
    if opts:
        o.update(opts)
    return {"scn": scn, "opts": o, "tables": [t.define() for t in tables], "cmds": cmds,
            "menu": menu}


# ---------------------------------------------------------------- validation

ALL_INVS = ["ExactlyOnce", "MemLockStep", "DiskLockStep", "AtMostOnce", "OffsetsOrdered"]


def validate(tables, traces, flags, invs, workdir, trunc_every=10, name="TraceRun", chunk_lines=2500):
    """Validates the traces (dict scn -> lines) against TraceStore, in parallel
    chunks of whole scenarios.  Returns (fails, viols, wall, lines): fails =
    {scn: line record that could not be taken}, viols = violation records."""
    from concurrent.futures import ThreadPoolExecutor
    os.makedirs(workdir, exist_ok=True)
    chunks, cur, n = [], {}, 0
    for scn, lines in traces.items():
        cur[scn] = lines
        n += len(lines)
        if n >= chunk_lines:
            chunks.append(cur)
            cur, n = {}, 0
    if cur:
        chunks.append(cur)
    t0 = time.time()

    def one(ci):
        return validate_chunk(tables, chunks[ci], flags, invs, os.path.join(workdir, "c%d" % ci), trunc_every, name)

    with ThreadPoolExecutor(min(common.NPROC, max(1, len(chunks)))) as ex:
        res = list(ex.map(one, range(len(chunks))))
    fails, viols, total = {}, [], 0
    for f, v, n in res:
        fails.update(f)
        viols += v
        total += n
    return fails, viols, time.time() - t0, total


# the fields of a trace line that spec/TraceStore.tla reads (the rest, raw rows
# with JSON nulls among them, stays on the Python side)
TLA_KEYS = {"a", "t", "scn", "p", "idx", "data", "off", "w", "fs", "noRaw", "sorted", "mem", "rows", "fields", "win",
            "held", "desc", "err"}


def validate_chunk(tables, traces, flags, invs, workdir, trunc_every, name):
    os.makedirs(workdir, exist_ok=True)
    path = os.path.join(workdir, name + ".ndjson")
    index = []
    with open(path, "w") as f:
        for scn, lines in traces.items():
            for rec in lines:
                if rec.get("a") in ("HarnessError", "DBPanic", "ProcessCrash"):
                    continue
                f.write(json.dumps({k: v for k, v in rec.items() if k in TLA_KEYS}) + "\n")
                index.append((scn, rec))
    mod, cfg = constants_module(name, "TraceStore", tables)
    cfg = ("SPECIFICATION TraceSpec\n" + cfg + flags_cfg(flags, trunc_every) +
           "  CheckInvs = %s\nINVARIANT Done\nCHECK_DEADLOCK FALSE\n" % tla(set(invs)))
    r = run_tlc(mod, name, cfg, workdir, workers=1, timeout=1800, env={"ZV_TRACE": path},
                java_opts="-Xss64m -Xmx3g")
    m = re.search(r'<<"ZVTRACE", "(.*)">>', r.out)
    if not m:
        open(os.path.join(common.SCRATCH_ROOT, "last_tlc_failure.out"), "w").write(r.out)
        raise InfraError("trace validation did not finish (output in .scratch/last_tlc_failure.out):\n" + r.out[-1500:])
    rep = json.loads(json.loads('"' + m.group(1) + '"'))
    stuck = {}
    for sm in re.finditer(r'<<"ZVSTUCK", "(.*)">>', r.out):
        info = json.loads(json.loads('"' + sm.group(1) + '"'))
        stuck[info["at"]] = info
    fails = {}
    for fl in rep["fails"]:
        scn, rec = index[fl["at"] - 1]
        fails[fl["scn"]] = {"line": fl["at"], "rec": rec, "spec": stuck.get(fl["at"])}
    first = {}
    for v in sorted(rep["viol"], key=lambda v: v["at"]):
        first.setdefault((v["scn"], v["inv"]), v)
    return fails, list(first.values()), len(index)


# ---------------------------------------------------------------- oracle

def expected_cells(table, menu, n_entries, array_dup):
    """Reference contents of a table (static schema, no expiry) after the
    first n_entries of the menu, as {(key, period, field, id): count}; the
    _points field is keyed with id 0.  Written from the statement of C01."""
    out = {}
    pred = WHERES[table.where][1]
    for p in menu[:n_entries]:
        d = plain_dims(KEYS[p["k"]])
        if not pred(d) or not p["vs"]:
            continue
        key = table.proj(p["k"])
        per = -(-p["ts"] // table.res) * table.res
        alen = p["n"] if "w" in p["vs"] else 1
        extras = (2 * (alen - 1)) if array_dup else (alen - 1)
        for f in table.flds():
            src = SRC[f]
            if src == "_point":
                c, pid = 1 + extras, 0
            else:
                c = (1 if src in p["vs"] else 0) + (extras if src == "w" else 0)
                pid = p["id"]
            if c:
                out[(key, per, f, pid)] = out.get((key, per, f, pid), 0) + c
    return out


def rows_to_cells(rows):
    out = {}
    for r in rows:
        out[(r[0], r[1], r[2], r[3])] = r[4]
    return out


def final_views(lines):
    """Last memstore-inclusive and disk-only result per table in a trace."""
    mem, disk = {}, {}
    for rec in lines:
        if rec.get("a") == "QueryResult":
            (mem if rec["mem"] else disk)[rec["t"]] = rec
    return mem, disk


def diff_cells(obs, exp):
    keys = set(obs) | set(exp)
    return {k: (obs.get(k, 0), exp.get(k, 0)) for k in keys if obs.get(k, 0) != exp.get(k, 0)}


# ---------------------------------------------------------------- model checking

MC_TABLES = [Table("a", fields=("f",), where="all", group=("a",), res=2),
             Table("b", fields=("f", "g"), where="by", group=(), res=1)]
MC_MENU = [point(1, 1, 1), point(2, 2, 3, vs=("w", "x"), n=2), point(3, 3, 4, n=2)]


def model_check(module, tables, menu, flags, invs, props, workdir, max_flushes=3, max_crashes=2,
                trunc_every=2, workers=None, timeout=3000, name="MCRun", extra_cfg="", sorted_set=(False,),
                field_menu=None, where_menu=None):
    extra = {"c_Menu": [tla_point(p) for p in menu], "c_Sorted": set(sorted_set),
             "c_FieldMenu": {t.name: (field_menu or {}).get(t.name, []) for t in tables},
             "c_WhereMenu": {t.name: (where_menu or {}).get(t.name, []) for t in tables}}
    mod, cfg = constants_module(name, module, tables, extra)
    spec = "MCSpec" if module == "MCStore" else "SimSpec"
    cfg = ("SPECIFICATION %s\n" % spec + cfg + flags_cfg(flags, trunc_every) +
           "  MaxFlushes = %d\n  MaxCrashes = %d\n" % (max_flushes, max_crashes) + extra_cfg +
           "".join("INVARIANT %s\n" % i for i in invs) + "".join("PROPERTY %s\n" % p for p in props) +
           "CHECK_DEADLOCK FALSE\n")
    return run_tlc(mod, name, cfg, workdir, workers=workers or common.NPROC, timeout=timeout)


def counterexample_script(tables, menu, flags, inv, workdir, goal="CrashInFlight", allow_close=False, max_scans=0, **kw):
    """Shortest behaviour of SimStore violating inv, as an action list."""
    extra_cfg = ("  Depth = 1000\n  AllowClose = %s\n  AllowCrash = TRUE\n  MaxScans = %d\n  GoalName = %s\nVIEW SimView\n"
                 % (tla(allow_close), max_scans, tla(goal)))
    r = model_check("SimStoreCex", tables, menu, flags, ["Cex_" + inv], [], workdir,
                    name="CexRun", extra_cfg=extra_cfg, **kw)
    m = re.search(r'<<"ZVCEX", "(.*)">>', r.out)
    if not m:
        if not r.ok:
            open(os.path.join(common.SCRATCH_ROOT, "last_tlc_failure.out"), "w").write(r.out)
            raise InfraError("goal/counterexample search failed (see .scratch/last_tlc_failure.out):\n" + r.out[-1200:])
        return None
    return json.loads(json.loads('"' + m.group(1) + '"'))


def goal_scripts(tables, menu, flags, goals, workdir, **kw):
    """For every coverage goal of SimStoreCex the shortest behaviour reaching it
    (None if the goal is unreachable within the bounds)."""
    from concurrent.futures import ThreadPoolExecutor

    def one(g):
        return g, counterexample_script(tables, menu, flags, "Goal", os.path.join(workdir, "goal-" + g), goal=g,
                                        workers=2, **kw)
    with ThreadPoolExecutor(8) as ex:
        return dict(ex.map(one, goals))


CRASH_GOALS = ["StaleOffsetFile", "OffsetFileAhead", "OffsetFileOnly", "CrashTempWritten", "CrashRenamedNotSwapped",
               "CrashInFlight", "CrashMemOverFile", "SecondCrash", "CleanCloseReopen"]


# ---------------------------------------------------------------- replay + judge

def run_and_judge(pid, V, bins, scenarios, tables_of, flags, invs, work, array_dup_oracle,
                  classify=None, label="replay", value_oracle=None, end_oracle=True, decision_lines=False,
                  observation_lines=("QueryResult",)):
    """Runs scenarios on the real code, validates the traces with TLC and
    applies the end-state oracle.  tables_of(scn) -> list of Table.
    Returns statistics."""
    t_run = time.time()
    traces = common.run_shards(bins["zvstore"], [{k: v for k, v in s.items() if k not in ("menu", "sets")} for s in scenarios],
                               os.path.join(work, label))
    by_id = {s["scn"]: s for s in scenarios}
    print("[%s] ran %d scenarios in %.1fs" % (pid, len(scenarios), time.time() - t_run), flush=True)
    stats = {"scenarios": len(scenarios), "lines": 0, "accepted": 0, "diverged": 0, "harness_errors": 0,
             "crashes": 0, "flushes": 0, "nontrivial": 0}
    # group by table configuration for TLC
    groups = {}
    for scn, lines in traces.items():
        key = json.dumps([t.define() for t in tables_of(by_id[scn])], sort_keys=True)
        groups.setdefault(key, {})[scn] = lines
    fails, viols = {}, []
    for gi, (key, tr) in enumerate(groups.items()):
        any_scn = next(iter(tr))
        f, v, wall, n = validate(tables_of(by_id[any_scn]), tr, flags, invs, os.path.join(work, "%s-tlc%d" % (label, gi)))
        print("[%s] TLC validated %d lines in %.1fs" % (pid, n, wall), flush=True)
        fails.update(f)
        viols += v
        stats["lines"] += n
    stats["tlc_viol"] = len(viols)
    for scn, lines in traces.items():
        sc = by_id[scn]
        tables = tables_of(sc)
        acts = [l["a"] for l in lines]
        herr = [l for l in lines if l["a"] in ("HarnessError", "DBPanic")]
        crash = [l for l in lines if l["a"] == "ProcessCrash"]
        if crash:
            if not crash[0]["in_database_code"]:
                raise InfraError("harness crashed in %s: %s\n%s" % (scn, crash[0]["panic"], crash[0]["stderr_tail"]))
            rp = common.save_replay(pid, scn, {"scenario": sc, "kind": "process-crash", "panic": crash[0]})
            V.violation(rp, "%s: the database process crashed: panic: %s (at %s)" % (scn, crash[0]["panic"], crash[0]["top_frame"]))
            stats["crashed"] = stats.get("crashed", 0) + 1
            continue
        ncr = acts.count("Crash") + acts.count("Close")
        nfl = acts.count("FlushSwap")
        stats["crashes"] += ncr
        stats["flushes"] += nfl
        if ncr and nfl:
            stats["nontrivial"] += 1
        if herr:
            stats["harness_errors"] += 1
        if scn in fails:
            fl = fails[scn]
            if fl["rec"]["a"] == "Apply" and decision_lines:
                rp = common.save_replay(pid, scn, {"scenario": sc, "rejected_at": fl, "kind": "decision"})
                V.violation(rp, "%s: table %s %s entry %s, the specification decides otherwise at trace line %d"
                            % (scn, fl["rec"]["t"], "stored" if fl["rec"]["data"] else "skipped", fl["rec"]["idx"], fl["line"]))
            elif fl["rec"]["a"] in observation_lines:
                rp = common.save_replay(pid, scn, {"scenario": sc, "rejected_at": fl, "kind": "observation"})
                V.violation(rp, "%s: rows returned by %s (mem=%s)%s are not the rows the specification allows at trace line %d"
                            % (scn, fl["rec"]["t"], fl["rec"]["mem"],
                               " for `%s`" % fl["rec"]["sql"] if "sql" in fl["rec"] else "", fl["line"]))
            else:
                stats["diverged"] += 1
                V.notes.append("%s: trace not a behaviour of the specification at %s (structural, see end-state oracle)"
                               % (scn, json.dumps(fl["rec"])[:200]))
        else:
            stats["accepted"] += 1
        # end-state oracle, independent of trace acceptance
        if herr:
            rp = common.save_replay(pid, scn + "-harness", {"scenario": sc, "kind": "harness-error", "error": herr[0]})
            V.notes.append("%s: harness error %s (scenario saved as %s)" % (scn, json.dumps(herr[0])[:300], rp))
            continue
        if not end_oracle:
            continue
        mem, disk = final_views(lines)
        n_entries = sum(1 for c in sc["cmds"] if c["a"] == "Insert")
        for t in tables:
            if t.name not in mem:
                continue
            obs = rows_to_cells(mem[t.name]["rows"])
            exp = expected_cells(t, sc["menu"], n_entries, array_dup_oracle)
            d = diff_cells(obs, exp)
            if value_oracle and not d:
                bad = value_oracle(sc, t, mem[t.name], n_entries)
                if bad:
                    rp = common.save_replay(pid, scn, {"scenario": sc, "table": t.name, "kind": "values", "bad": bad[:10]})
                    V.violation(rp, "%s: table %s: field values differ from the declared aggregates over the cell's points, e.g. %s"
                                % (scn, t.name, bad[0]))
            if d:
                verdict = classify(sc, t, d) if classify else None
                if verdict and V.listed(verdict):
                    V.known_finding(V.listed(verdict))
                else:
                    rp = common.save_replay(pid, scn, {"scenario": sc, "table": t.name, "kind": "end-state",
                                                       "diff": [[list(k), v] for k, v in sorted(d.items(), key=repr)]})
                    V.violation(rp, "%s: table %s after catching up differs from the reference on %d cell(s), e.g. %s observed/expected %s"
                                % (scn, t.name, len(d), list(sorted(d, key=repr)[0]), d[sorted(d, key=repr)[0]]))
    for v in viols:
        sc = by_id.get(v["scn"])
        V.notes.append("TLC: %s false after line %d of %s on %s" % (v["inv"], v["at"], v["scn"], v["bad"][:4]))
    return stats, traces, fails, viols


def sample_of(sc, n=14):
    return {"scn": sc["scn"], "actions": [c["a"] + (":" + c["t"] if "t" in c and c["t"] else "") for c in sc["cmds"]
                                           if c["a"] != "Query"][:n * 3]}


# ---------------------------------------------------------------- family driver

def store_check(args, pid, mc_jobs, gen, invs, array_dup_oracle, assumptions, classify=None,
                mc_props=("FlushInvisible", "DiskEqualsViewAfterSwap"), nontrivial_rule=None, value_oracle=None,
                extra_cov=None, end_oracle=True, decision_lines=False, post_judge=None,
                observation_lines=("QueryResult",)):
    """Common driver: (M) exhaustive TLC jobs, counterexamples replayed as
    hypotheses; (R) simulated behaviours replayed on the real code, traces
    validated by TLC, end-state oracle."""
    t0 = time.time()
    V = Verdict(pid)
    quick = common.tier() == "quick"
    rng = random.Random(common.seed() * 7919 + int(pid[1:]))
    bins = common.build()
    work = common.scratch(pid)
    flags = dict(CODE_FLAGS)
    cov = {}
    try:
        if args.replay:
            rp = json.load(open(args.replay))
            sc = rp["scenario"]
            tabs = tables_from_defs(sc)
            stats, traces, *_ = run_and_judge(pid, V, bins, [sc], lambda s: tabs, flags, invs, work, array_dup_oracle, classify,
                                              value_oracle=value_oracle, end_oracle=end_oracle, decision_lines=decision_lines,
                                              observation_lines=observation_lines)
            if post_judge:
                # (the laws between executions of one scenario are judged here)
                post_judge(V, [sc], traces)
            print(json.dumps(stats))
            return V.finish()
        states = trans = 0
        hyps = []
        for mi, job in enumerate(mc_jobs(quick)):
            r = model_check("MCStore", job["tables"], job["menu"], job.get("flags", flags), job.get("invs", ALL_INVS),
                            job.get("props", mc_props), os.path.join(work, "mc%d" % mi),
                            max_flushes=job.get("max_flushes", 3), max_crashes=job.get("max_crashes", 2),
                            trunc_every=job.get("trunc_every", 2), sorted_set=job.get("sorted", (False,)),
                            field_menu=job.get("field_menu"), where_menu=job.get("where_menu"),
                            timeout=600 if quick else 3000)
            states += r.distinct
            trans += r.generated
            if r.violated:
                hyps.append((job, r.violated))
            elif not r.ok:
                open(os.path.join(common.SCRATCH_ROOT, "last_tlc_failure.out"), "w").write(r.out)
                raise InfraError("model checking did not finish:\n" + r.out[-3000:])
        cov["states"], cov["transitions"] = states, trans
        print("[%s] model checking done at %.1fs: %d distinct states" % (pid, time.time() - t0, states), flush=True)
        scenarios = []
        tabs_of = {}
        cex_ids = set()
        for hi, (job, violated) in enumerate(hyps):
            known = job.get("expect_violation")
            if known and set(violated) <= set(known["invs"]) and V.listed(known["why"]):
                V.known_finding(V.listed(known["why"]))
                continue
            h = counterexample_script(job["tables"], job["menu"], job.get("flags", flags), "ExactlyOnce",
                                      os.path.join(work, "cex%d" % hi), max_flushes=job.get("max_flushes", 3),
                                      max_crashes=job.get("max_crashes", 2))
            if h:
                sc = scenario_from_hist("%s-cex%d" % (pid, hi), job["tables"], job["menu"], h)
                scenarios.append(sc)
                tabs_of[sc["scn"]] = job["tables"]
                cex_ids.add(sc["scn"])
            V.notes.append("model: %s violated for the code-faithful constants; counterexample %s"
                           % (violated, "replayed as %s-cex%d" % (pid, hi) if h else "not reproducible as a script"))
        for sc, tabs in gen(rng, quick, work, flags):
            scenarios.append(sc)
            tabs_of[sc["scn"]] = tabs
        print("[%s] %d scenarios generated at %.1fs" % (pid, len(scenarios), time.time() - t0), flush=True)
        stats, traces, fails, viols = run_and_judge(pid, V, bins, scenarios, lambda s: tabs_of[s["scn"]], flags, invs,
                                                   work, array_dup_oracle, classify, value_oracle=value_oracle,
                                                   end_oracle=end_oracle, decision_lines=decision_lines,
                                                   observation_lines=observation_lines)
        if post_judge:
            post_judge(V, scenarios, traces)
        if extra_cov:
            cov.update(extra_cov(scenarios, traces))
        cov.update({"traces_validated_against_impl": stats["accepted"],
                    "samples": [sample_of(s) for s in scenarios[:3]],
                    "replayed_behaviours": stats["scenarios"], "trace_lines": stats["lines"],
                    "crash_or_close_steps": stats["crashes"], "completed_flushes": stats["flushes"],
                    "behaviours_with_flush_and_crash": stats["nontrivial"],
                    "unexplained_traces": stats["diverged"], "harness_errors": stats["harness_errors"],
                    "model_counterexamples_replayed": len(cex_ids), "exhaustive": False})
        rc = V.finish()
        common.write_evidence(pid, "model_checking", cov, assumptions, time.time() - t0, len(V.violations))
        if stats["harness_errors"] > max(2, len(scenarios) // 10):
            print("harness errors in %d of %d scenarios" % (stats["harness_errors"], len(scenarios)))
            return rc or 2
        return rc
    finally:
        shutil.rmtree(work, ignore_errors=True)


BASE_ASSUMPTIONS = ["the harness maps WAL offsets to entries by entry content",
                    "schema static, all points inside the retention window",
                    "bag-of-ids observable: point i carries 4^i in every decodable SUM field (<= 24 points)"]

MENU2 = [point(1, 1, 1, n=2), point(2, 2, 3, vs=("x",)), point(3, 3, 4, n=1), point(4, 2, 2, vs=())]


# ---------------------------------------------------------------- C02

def check_C02(args):
    def mc_jobs(quick):
        jobs = [dict(tables=MC_TABLES, menu=MC_MENU, max_flushes=3, max_crashes=2)]
        if not quick:
            jobs.append(dict(tables=MC_TABLES, menu=MENU2, max_flushes=4, max_crashes=2))
        return jobs

    def gen(rng, quick, work, flags):
        # goal-directed: the shortest behaviour into every restart situation
        for gi, menu in enumerate([MC_MENU, MENU2] if quick else [MC_MENU, MENU2] + [random_menu(rng, 4) for _ in range(6)]):
            gs = goal_scripts(MC_TABLES, menu, flags, CRASH_GOALS, os.path.join(work, "goals%d" % gi),
                              allow_close=True, max_flushes=4, max_crashes=2)
            for g, h in gs.items():
                if h:
                    yield scenario_from_hist("C02-g%d-%s" % (gi, g), MC_TABLES, menu, h), MC_TABLES
        n_menus, per = (6, 25) if quick else (60, 120)
        for mi in range(n_menus):
            menu = random_menu(rng, rng.randint(3, 6))
            hs = sim_scripts(MC_TABLES, menu, flags, per, rng.choice([24, 32, 40]), rng.randint(1, 10 ** 6),
                             os.path.join(work, "sim%d" % mi), max_flushes=5, max_crashes=3)
            for j, h in enumerate(hs):
                yield scenario_from_hist("C02-%d-%d" % (mi, j), MC_TABLES, menu, h, int_vals=rng.random() < 0.3), MC_TABLES

    kst = {"dirs": 0, "kills": 0, "acked": 0, "in_flight": 0, "kills_during_insert": 0}

    def post_judge(V, scenarios, traces):
        if args.replay:
            return
        kill_part("C02", V, random.Random(common.seed() * 31 + 2), quick_tier(), kst)
        pipeline_part("C02", V, pst)

    pst = {}

    def extra_cov(scenarios, traces):
        return dict({"async_kill_directories": kst["dirs"], "async_kills": kst["kills"], "async_kill_acked_points": kst["acked"],
                     "async_kill_points_in_flight": kst["in_flight"]}, **dict(pst, **{k: v for k, v in kst.items() if k.startswith("pipeline_trace")}))

    return store_check(args, "C02", mc_jobs, gen, ALL_INVS, CODE_FLAGS["ArrayDup"],
                       ["crash = loss of volatile state at a hook point (process-kill model; page cache survives)",
                        "asynchronous part: a child process with 1-3 ms timer flushes is killed with SIGKILL at random instants, three rounds per "
                        "directory; acknowledged = the Insert call had returned (WAL synced on write) before the kill"]
                       + BASE_ASSUMPTIONS, post_judge=post_judge, extra_cov=extra_cov)


def quick_tier():
    return common.tier() == "quick"


def pipeline_part(pid, V, st):
    """spec/Pipeline.tla (the ingest pipeline at the level of stream offsets, any number
    of sources): model checked, and the hook events of the repository's own
    TestSingleDB / TestStorage validated against it (spec/TracePipe.tla)."""
    import pipe_checks
    from tla import run_tlc
    work = common.scratch(pid + "-pipe")
    try:
        quick = quick_tier()
        mod = ('---- MODULE MCPipe ----\nEXTENDS MCPipeline\nc_Keyed == {<<"t", "s0", 1>>, <<"t", "s0", 3>>, <<"t", "s1", 2>>%s}\n====\n'
               % ("" if quick else ', <<"t", "s1", 4>>, <<"t", "s0", 4>>'))
        cfg = ('SPECIFICATION MCSpec\nCONSTANTS\n  Tables = {"t"}\n  Sources = {"s0", "s1"}\n  StreamLen = %d\n  MaxCrashes = 2\n  Keyed <- c_Keyed\n'
               'INVARIANTS DurableBehind Recoverable Visible\nCHECK_DEADLOCK FALSE\n' % (3 if quick else 4))
        r = run_tlc(mod, "MCPipe", cfg, os.path.join(work, "mc"), workers=common.NPROC, timeout=600 if quick else 3000)
        if r.violated:
            V.notes.append("model: %s violated in spec/Pipeline.tla" % r.violated)
        elif not r.ok:
            raise InfraError("Pipeline model checking did not finish:\n" + r.out[-2000:])
        st["pipeline_states"] = r.distinct
        print("[%s] spec/Pipeline.tla: %d distinct states, DurableBehind / Recoverable / Visible hold" % (pid, r.distinct), flush=True)
        pipe_checks.repo_tests_part(pid, V, ".", "TestSingleDB|TestStorage", work, st, "root")
    finally:
        shutil.rmtree(work, ignore_errors=True)


def small_memory_ratio(nbytes=3000):
    """MaxMemoryRatio that caps the process at about nbytes (the sorter of a sorted flush gets a tenth)."""
    try:
        total = int(re.search(r"MemTotal:\s+(\d+) kB", open("/proc/meminfo").read()).group(1)) * 1024
    except Exception:
        total = 64 << 30
    return float(nbytes) / total


def free_part(pid, V, rng, quick, st, capped_only=False):
    """Free-running scans (C18): a child process inserts points while 1-3 ms timer flushes and
    memstore-inclusive queries run concurrently; every result must show exactly the cells of a
    prefix of the stream (the first m entries, for some m), and successive results of a table
    prefixes that do not shrink."""
    import subprocess
    from concurrent.futures import ThreadPoolExecutor
    zk = common.build(("zvkill",))["zvkill"]
    work = common.scratch(pid + "-free")
    tables = C18_TABLES
    jobs = []
    # under a memory cap the sorter of a sorted flush gets a tenth of the cap: less than a row, so
    # that every row of the table becomes a sorted run of its own and the flush is a k-way merge
    mem_ratio = small_memory_ratio(300)
    for di in range((6 if quick else 48) // (2 if capped_only else 1)):
        capped = capped_only or di % 2 == 1
        keys = rng.choice([BASIC_KEYS, [1, 3], [7, 10, 8, 1, 2]]) if not capped else rng.choice([CLUSTER_KEYS, sorted(KEYS), BASIC_KEYS])
        menu = random_menu(rng, rng.randint(14, 22), ticks=(1, 9), arrays=False, keys=keys)
        jobs.append((di, menu, rng.choice([0, 100, 400, 1500]), capped))

    def one(job):
        di, menu, pace, capped = job
        d = os.path.join(work, "d%d" % di)
        os.makedirs(d, exist_ok=True)
        pts = []
        for x in menu:
            c = render_insert(x)
            pts.append({"id": x["id"], "ts": x["ts"], "dims": c["dims"], "vals": c["vals"]})
        # every other directory runs under a memory cap of a few bytes: each insert forces a flush
        # of the largest memstore, flushes are sorted in turn and the sorter spills every row
        job_ = {"tables": [t.define() for t in tables], "points": pts, "paceUs": pace}
        if capped:
            job_["maxMemoryRatio"] = mem_ratio
        p = subprocess.run([zk, "-mode", "free", "-dir", os.path.join(d, "data"), "-rec", os.path.join(d, "rec.ndjson"), "-life", "f%d" % di],
                           input=json.dumps(job_),
                           stdout=subprocess.PIPE, stderr=subprocess.PIPE, text=True, timeout=300)
        evs = []
        if os.path.exists(os.path.join(d, "rec.ndjson")):
            for line in open(os.path.join(d, "rec.ndjson")):
                try:
                    e = json.loads(line)
                except ValueError:
                    continue
                e["seq"] += di * 10 ** 7
                evs.append(e)
        shutil.rmtree(d, ignore_errors=True)
        return di, menu, p.returncode, [json.loads(l) for l in p.stdout.splitlines() if l.startswith('{"a":"Free"')], p.stderr[:1500], evs

    with ThreadPoolExecutor(6) as ex:
        results = list(ex.map(one, jobs))
    all_evs = [e for r_ in results for e in r_[5]]
    results = [r_[:5] for r_ in results]
    if all_evs:
        # (T) every scan of the free-running processes takes the file store installed at that
        # moment, between complete flush steps: the events against spec/TracePipe.tla
        import pipe_checks
        pipe_checks.events_part(pid, V, all_evs, work, st, "free", "the free-running processes (inserts, timer flushes, scans)")
    for di, menu, rc, lines, err in results:
        if rc != 0 or not lines:
            m = re.search(r"^(?:panic|fatal error): (.*)$", err, re.M)
            if m and ("/zenodb" in err or "/repo/" in err):
                rp = common.save_replay(pid, "free-d%d-panic" % di, {"kind": "free-run", "menu": menu, "stderr": err})
                V.violation(rp, "the database panics under concurrent inserts, timer flushes and scans: %s" % m.group(1)[:200])
                continue
            raise InfraError("zvkill free run %d exited %d: %s" % (di, rc, err[:400]))
        st["dirs"] += 1
        prefixes = {t.name: [expected_cells(t, menu, m, False) for m in range(len(menu) + 1)] for t in tables}
        last = {t.name: 0 for t in tables}
        for l in lines:
            st["results"] += 1
            if l.get("err"):
                continue
            obs = rows_to_cells(l["rows"])
            cand = [m for m, e in enumerate(prefixes[l["t"]]) if e == obs]
            if obs:
                st["nonempty"] += 1
            if 0 < len(obs) and cand and max(cand) < len(menu):
                st["strict_prefixes"] += 1
            ok = [m for m in cand if m >= last[l["t"]] or prefixes[l["t"]][m] == prefixes[l["t"]][last[l["t"]]]]
            if not cand or not ok:
                why = "is not the content of any prefix of the stream" if not cand else "reflects a shorter prefix (%s entries) than an earlier result of the same table (%d)" % (cand, last[l["t"]])
                # the nearest prefix, for the report
                best = min(range(len(menu) + 1), key=lambda m: len(diff_cells(obs, prefixes[l["t"]][m])))
                d = diff_cells(obs, prefixes[l["t"]][best])
                rp = common.save_replay(pid, "free-d%d-q%d" % (di, l["q"]), {"kind": "free-run", "menu": menu, "line": l,
                                                                           "nearest_prefix": best, "diff": [[list(k), v] for k, v in sorted(d.items(), key=repr)][:10]})
                V.violation(rp, "free-running scan %d of table %s (inserts returned before / after it: %d / %d) %s; against the first %d entries it differs on %s"
                            % (l["q"], l["t"], l["before"], l["after"], why, best, [[list(k), v] for k, v in sorted(d.items(), key=repr)][:3]))
                break
            last[l["t"]] = max(last[l["t"]], min(ok))
    shutil.rmtree(work, ignore_errors=True)


def kill_part(pid, V, rng, quick, st):
    """Asynchronous SIGKILL (C02): a child process ingests points with timer-driven flushes and is
    killed at a random instant, three times per directory; afterwards every acknowledged point
    must be in every table that accepts it exactly once, a point in flight at most once."""
    import signal, subprocess
    from concurrent.futures import ThreadPoolExecutor
    zk = common.build(("zvkill",))["zvkill"]
    work = common.scratch(pid + "-kill")
    tables = MC_TABLES
    jobs = []
    for di in range(8 if quick else 64):
        menu = random_menu(rng, 18, ticks=(1, 9), arrays=False, nonnumeric=False)
        jobs.append((di, menu, rng.randint(0, 10 ** 6)))

    def render(p):
        c = render_insert(p)
        return {"id": p["id"], "ts": p["ts"], "dims": c["dims"], "vals": c["vals"]}

    def one(job):
        di, menu, seed = job
        r = random.Random(seed)
        d = os.path.join(work, "d%d" % di)
        os.makedirs(d, exist_ok=True)
        data = os.path.join(d, "data")
        acked, inflight, kills, during = [], [], 0, 0
        for rnd in range(3):
            pts = menu[rnd * 6:(rnd + 1) * 6]
            stop_after = r.randint(0, len(pts))           # acks to wait for before the kill
            p = subprocess.Popen([zk, "-mode", "run", "-dir", data, "-rec", os.path.join(d, "rec%d.ndjson" % rnd), "-life", "d%dr%d" % (di, rnd)],
                                 stdin=subprocess.PIPE, stdout=subprocess.PIPE, stderr=subprocess.DEVNULL, text=True)
            p.stdin.write(json.dumps({"tables": [t.define() for t in tables], "points": [render(x) for x in pts], "paceUs": r.choice([0, 200, 2000])}))
            p.stdin.close()
            begun = None
            n_ack = 0
            t_end = time.time() + 30
            while time.time() < t_end:
                line = p.stdout.readline()
                if not line:
                    break
                w = line.split()
                if w[0] == "begin":
                    begun = int(w[1])
                elif w[0] == "ack":
                    acked.append(int(w[1]))
                    begun = None
                    n_ack += 1
                if (w[0] == "open" and stop_after == 0) or (w[0] == "ack" and n_ack >= stop_after) or w[0] == "done":
                    break
            time.sleep(r.choice([0, 0, 0.001, 0.003, 0.01]))
            p.send_signal(signal.SIGKILL)
            # whatever the child wrote before it died
            for line in p.stdout.read().splitlines():
                w = line.split()
                if w and w[0] == "begin":
                    begun = int(w[1])
                elif w and w[0] == "ack":
                    acked.append(int(w[1]))
                    begun = None
            p.wait()
            kills += 1
            if begun is not None:
                inflight.append(begun)
                during += 1
        v = subprocess.run([zk, "-mode", "verify", "-dir", data, "-rec", os.path.join(d, "rec3.ndjson"), "-life", "d%dr3" % di],
                           input=json.dumps({"tables": [t.define() for t in tables], "expect": 0}),
                           stdout=subprocess.PIPE, stderr=subprocess.PIPE, text=True, timeout=120)
        rep = None
        for line in v.stdout.splitlines():
            if line.startswith('{"a":"Verify"'):
                rep = json.loads(line)
        # the hook events of the four incarnations, in order (a line cut short by the kill is dropped)
        evs = []
        for rnd in range(4):
            fn = os.path.join(d, "rec%d.ndjson" % rnd)
            if os.path.exists(fn):
                for line in open(fn):
                    try:
                        e = json.loads(line)
                    except ValueError:
                        continue
                    e["seq"] += (di * 4 + rnd) * 10 ** 7
                    e["killed_before"] = rnd > 0          # the previous incarnation on this directory was killed
                    evs.append(e)
        shutil.rmtree(d, ignore_errors=True)
        return di, menu, acked, inflight, kills, during, rep, v.stderr[:2500], evs

    with ThreadPoolExecutor(8) as ex:
        results = list(ex.map(one, jobs))
    all_evs = [e for r_ in results for e in r_[8]]
    results = [r_[:8] for r_ in results]
    if all_evs:
        # (T) the free-running incarnations, event by event, against spec/TracePipe.tla: every
        # pipeline and flush step, and after each kill the resume point of every table
        import pipe_checks
        pipe_checks.events_part(pid, V, all_evs, work, st, "kill", "the child processes killed asynchronously")
    for di, menu, acked, inflight, kills, during, rep, err in results:
        if rep is None:
            m = re.search(r"^(?:panic|fatal error): (.*)$", err, re.M)
            if m and ("/zenodb" in err or "/repo/" in err):
                # the database itself goes down when it is opened on what the kills left behind
                rp = common.save_replay(pid, "kill-d%d-recovery-panic" % di, {"kind": "async-kill", "menu": menu, "acked": acked, "in_flight": inflight, "stderr": err})
                V.violation(rp, "after %d SIGKILLs at random instants the database panics when it is opened again and queried: %s" % (kills, m.group(1)[:200]))
                continue
            raise InfraError("zvkill verify produced no report for directory %d: %s" % (di, err[:600]))
        st["dirs"] += 1
        st["kills"] += kills
        st["acked"] += len(acked)
        st["in_flight"] += len(inflight)
        by_id = {p["id"]: p for p in menu}
        for t in tables:
            obs = rows_to_cells(rep["tables"].get(t.name) or [])
            exp = expected_cells(t, [by_id[i] for i in acked], len(acked), False)
            maybe = expected_cells(t, [by_id[i] for i in inflight], len(inflight), False)
            bad = []
            for k in set(obs) | set(exp):
                o, e = obs.get(k, 0), exp.get(k, 0)
                if k[3] == 0:
                    # _points cells are not per point: between the acknowledged ones and those plus the ones in flight
                    if not (e <= o <= e + maybe.get(k, 0)):
                        bad.append((k, o, e))
                elif not (e <= o <= e + maybe.get(k, 0)) or (o > 0 and e == 0 and k not in maybe):
                    bad.append((k, o, e))
            if bad:
                k, o, e = sorted(bad, key=repr)[0]
                rp = common.save_replay(pid, "kill-d%d-%s" % (di, t.name), {"kind": "async-kill", "menu": menu, "acked": acked, "in_flight": inflight,
                                                                         "table": t.name, "bad": [[list(x[0]), x[1], x[2]] for x in bad][:10]})
                V.violation(rp, "after %d SIGKILLs at random instants table %s differs from the acknowledged inserts on %d cell(s), e.g. %s observed %s, "
                                "acknowledged %s (acknowledged ids %s, in flight %s)" % (kills, t.name, len(bad), list(k), o, e, acked, inflight))
    shutil.rmtree(work, ignore_errors=True)


# ---------------------------------------------------------------- C03

C03_TABLES = [Table("a", fields=("f", "g"), where="all", group=("a", "b"), res=2),
              Table("b", fields=("f",), where="by", group=("a",), res=1)]


def check_C03(args):
    def mc_jobs(quick):
        jobs = [dict(tables=MC_TABLES, menu=MC_MENU, max_flushes=4, max_crashes=1, sorted=(False, True))]
        if not quick:
            jobs.append(dict(tables=C03_TABLES, menu=MENU2, max_flushes=5, max_crashes=1, sorted=(False, True), trunc_every=3))
        return jobs

    def gen(rng, quick, work, flags):
        # goal-directed: a late point strictly inside an already flushed series, a
        # flushed point inside the range the memstore spans, clean close/reopen
        gmenus = [[point(1, 1, 1), point(2, 5, 1), point(3, 3, 1), point(4, 8, 3)],
                  [point(1, 3, 3, vs=("w", "x")), point(2, 1, 3), point(3, 6, 3), point(4, 4, 4, n=2)]]
        for gi, menu in enumerate(gmenus):
            gs = goal_scripts(C03_TABLES, menu, flags, ["LatePointInsideFlushedSeries", "FlushedPointInsideMemSeries",
                                                        "CleanCloseReopen"],
                              os.path.join(work, "goals%d" % gi), allow_close=True, max_flushes=3, max_crashes=1)
            for g, h in gs.items():
                if h:
                    yield scenario_from_hist("C03-g%d-%s" % (gi, g), C03_TABLES, menu, h, subsets=rng), C03_TABLES
        n_menus, per = (6, 20) if quick else (50, 100)
        for mi in range(n_menus):
            tabs = rng.choice([C03_TABLES, MC_TABLES])
            if mi % 2:
                menu = random_menu(rng, rng.randint(4, 8))
            else:
                # long series: few keys, many periods, out of order
                menu = random_menu(rng, rng.randint(9, 13), ticks=(1, 14), keys=rng.choice([[1], [3], [1, 3], [3, 4]]),
                                   nonnumeric=False)
            # flush-heavy behaviours, clean restarts, no crashes; every third menu
            # runs long enough for the 10th (truncating, non-raw) flush
            long = mi % 3 == 0
            hs = sim_scripts(tabs, menu, flags, per, 90 if long else rng.choice([30, 45]), rng.randint(1, 10 ** 6),
                             os.path.join(work, "sim%d" % mi), max_flushes=24 if long else 8, max_crashes=2,
                             allow_crash=False, allow_close=True)
            for j, h in enumerate(hs):
                opts = {"maxMemoryRatio": 0.9} if rng.random() < 0.5 else {}
                yield scenario_from_hist("C03-%d-%d" % (mi, j), tabs, menu, h, opts=opts, subsets=rng), tabs

    fst = {"dirs": 0, "results": 0, "nonempty": 0, "strict_prefixes": 0}

    def post_judge(V, scenarios, traces):
        if not args.replay:
            # free running under a memory cap of a few hundred bytes: every insert forces a flush,
            # flushes are sorted in turn and the sorter merges one run per row; whatever a scan
            # returns meanwhile must be the content of a prefix of the stream
            free_part("C03", V, random.Random(common.seed() * 13 + 3), quick_tier(), fst, capped_only=True)

    def extra_cov(scenarios, traces):
        return {"memory_capped_processes": fst["dirs"], "memory_capped_scan_results": fst["results"],
                "memory_capped_results_of_a_strict_prefix": fst["strict_prefixes"]}

    return store_check(args, "C03", mc_jobs, gen, ["ExactlyOnce", "MemLockStep", "DiskLockStep"],
                       CODE_FLAGS["ArrayDup"],
                       ["flush schedules are forced flushes placed by TLC-simulated behaviours (timer-driven flushes are covered by the free-running tier)",
                        "sorted flushes occur when MaxMemoryRatio > 0 and it is the table's turn (observed, not forced)",
                        "memory-capped part: child processes under a cap of about 300 bytes (sorter budget below one row), forced sorted flushes "
                        "with a k-way merge of one run per row, scans concurrent with the inserts"]
                       + BASE_ASSUMPTIONS, post_judge=post_judge, extra_cov=extra_cov)


# ---------------------------------------------------------------- C01

RAW = {"sv": "SUM(v)", "cv": "COUNT(v)", "mn": "MIN(v)", "mx": "MAX(v)", "av": "AVG(v)", "wv": "WAVG(v, u)",
       "ar": "SUM(v) + SUM(u)", "dv": "SUM(v) / COUNT(u)", "ifs": "IF(b = 'y', SUM(v))",
       "bv": "AVG(BOUNDED(v, 2, 3))", "ml": "SUM(v) * MAX(u)"}
C01_TABLES = [Table("a", fields=("f", "g"), where="all", group=("a",), res=2),
              Table("b", fields=("f",), where="by", group=(), res=1),
              Table("c", fields=("h", "i"), where="a1", group=("b", "c"), res=3),
              Table("v", fields=("f",), where="bx", view_where="bx", group=("a",), res=2, view_of="a"),
              Table("agg", fields=("f",), where="all", group=("a",), res=2, raw=RAW),
              Table("d", fields=("g", "f"), where="all", group=(), res=2)]
D8_KEY = "array-values-inserted-twice"
D8_TEXT = ("array-valued field: every additional array element is inserted twice (insert.go:216-252 runs twice "
           "inside bytemap.Build), so an n-element array counts 2n-1 times instead of n; pinned by TestSingleDB (_points 202)")


def agg_expected(points):
    """Declared aggregates of table agg over the accepted points of one cell,
    from the definitions of the aggregates (not from the code)."""
    from fractions import Fraction as F
    vs = [p["num"]["v"] for p in points if "v" in p.get("num", {})]
    us = [p["num"]["u"] for p in points if "u" in p.get("num", {})]
    vu = [(p["num"]["v"], p["num"].get("u", 0)) for p in points if "v" in p.get("num", {})]
    by = [p["num"]["v"] for p in points if "v" in p.get("num", {}) and plain_dims(KEYS[p["k"]]).get("b") == "y"]
    bd = [v for v in vs if 2 <= v <= 3]
    sumu = sum(u for _, u in vu)
    out = {"sv": F(sum(vs)), "cv": F(len(vs)), "mn": F(min(vs)) if vs else F(0), "mx": F(max(vs)) if vs else F(0),
           "av": F(sum(vs), len(vs)) if vs else F(0),
           "wv": F(sum(v * u for v, u in vu), sumu) if sumu else F(0),
           "ar": F(sum(vs) + sum(us)),
           # (x / 0 is "very large" for x # 0; 0 / 0 is not decided by anything: skipped)
           "dv": (F(sum(vs), len(us)) if us else (F(0) if not vs else (None if sum(vs) != 0 else "skip"))),
           "ifs": F(sum(by)), "bv": F(sum(bd), len(bd)) if bd else F(0),
           "ml": F(sum(vs) * (max(us) if us else 0))}
    return out


def c01_value_oracle(sc, t, result, n_entries):
    if not t.raw:
        return []
    pred = WHERES[t.where][1]
    cells = {}
    for p in sc["menu"][:n_entries]:
        if not pred(plain_dims(KEYS[p["k"]])) or not p["vs"]:
            continue
        cells.setdefault((t.proj(p["k"]), -(-p["ts"] // t.res) * t.res), []).append(p)
    obs = {}
    for key, per, f, val in result.get("vals", []):
        obs[(key, per, f)] = val
    bad = []
    for (key, per), pts in cells.items():
        exp = agg_expected(pts)
        for f, e in exp.items():
            o = obs.get((key, per, f), 0.0)
            if e == "skip":
                continue
            if e is None:          # x / 0 with x # 0: defined as "very large"
                if abs(o) < 1e300:
                    bad.append([key, per, f, o, "max float"])
                continue
            if abs(o - float(e)) > 1e-9 * max(1.0, abs(float(e))):
                bad.append([key, per, f, o, str(e)])
    for (key, per, f), o in obs.items():
        if (key, per) not in cells and o != 0:
            bad.append([key, per, f, o, "no such cell"])
    return bad


def check_C01(args):
    def classify(sc, t, d):
        n_entries = sum(1 for c in sc["cmds"] if c["a"] == "Insert")
        dup = expected_cells(t, sc["menu"], n_entries, True)
        prop = expected_cells(t, sc["menu"], n_entries, False)
        arr = {p["id"] for p in sc["menu"] if p["n"] > 1 and "w" in p["vs"]}
        for k, (o, e) in d.items():
            if dup.get(k, 0) != o:
                return None          # not what D8 predicts
            if k[3] != 0 and k[3] not in arr:
                return None
        return D8_KEY

    def mc_jobs(quick):
        design = dict(CODE_FLAGS, ArrayDup=False)
        jobs = [dict(tables=MC_TABLES, menu=MC_MENU, max_flushes=3, max_crashes=0, flags=design,
                     invs=ALL_INVS + ["ViewCorrect"]),
                dict(tables=MC_TABLES, menu=MC_MENU, max_flushes=2, max_crashes=0, invs=["ViewCorrect"], props=(),
                     expect_violation={"invs": ["ViewCorrect"], "why": D8_KEY})]
        if not quick:
            # (measured: 3 tables / 3 flushes 1.95 M distinct states, 3 min on 8 workers; with the view as
            # a fourth table the instance did not finish in 50 min at 78 M states)
            jobs.append(dict(tables=C01_TABLES[:3], menu=MENU2, max_flushes=3, max_crashes=0, flags=design,
                             invs=ALL_INVS + ["ViewCorrect"]))
        return jobs

    def gen(rng, quick, work, flags):
        # goal-directed: out-of-order points landing inside an already flushed
        # series (and the converse), so that file and memstore columns of one row
        # are merged in every relative position
        gtabs = C01_TABLES[:2]
        gmenus = [[point(1, 1, 1), point(2, 5, 1), point(3, 3, 1), point(4, 8, 3)],
                  [point(1, 3, 3, vs=("w", "x")), point(2, 1, 3), point(3, 6, 3), point(4, 4, 4)]]
        for gi, menu in enumerate(gmenus):
            gs = goal_scripts(gtabs, menu, flags, ["LatePointInsideFlushedSeries", "FlushedPointInsideMemSeries"],
                              os.path.join(work, "goals%d" % gi), max_flushes=3, max_crashes=0)
            for g, h in gs.items():
                if h:
                    yield scenario_from_hist("C01-g%d-%s" % (gi, g), gtabs, menu, h), gtabs
        for di in range(4 if quick else 40):
            # long series of one or two keys with out-of-order arrival and a flush after every other point
            menu = random_menu(rng, rng.randint(9, 13), ticks=(0, 14), keys=rng.choice([[1], [3], [1, 3]]), nonnumeric=False)
            d = Directed(gtabs, menu)
            for i in range(len(menu)):
                d.insert_and_process()
                if i % 2:
                    d.flush(rng.choice(gtabs).name)
            yield scenario_from_hist("C01-d%d" % di, gtabs, menu, d.h), gtabs
        for di in range(12 if quick else 60):
            # the aggregate catalogue under flushes: few keys and periods, points that lack one of
            # the values, out-of-order arrival, a flush of the catalogue table after every point, so
            # that set and unset periods of file and memstore series are merged in both orders
            vtabs = [C01_TABLES[4], C01_TABLES[0]]
            menu = random_menu(rng, rng.randint(6, 10), ticks=(0, 7), keys=rng.choice([[1], [1, 2]]), nums=True, arrays=False, nonnumeric=False)
            d = Directed(vtabs, menu)
            for i in range(len(menu)):
                d.insert_and_process()
                if rng.random() < 0.8:
                    d.flush("agg")
            yield scenario_from_hist("C01-v%d" % di, vtabs, menu, d.h, int_vals=di % 2 == 0), vtabs
        n_menus, per = (6, 12) if quick else (60, 60)
        for mi in range(n_menus):
            tabs = C01_TABLES
            menu = random_menu(rng, rng.randint(5, 10), ticks=(0, 9), keys=sorted(KEYS), nums=True,
                               arrays=mi % 2 == 0)
            # a key whose encoding is a byte-prefix of an earlier key's (radix tree split)
            if mi % 2 == 1 and len(menu) > 4:
                i1, i2 = sorted(rng.sample(range(len(menu)), 2))
                for idx, k in ((i1, 8), (i2, 10)):
                    menu[idx]["k"], menu[idx]["sat"] = k, sat_of(k)
            # duplicates: same timestamp and dimensions as an earlier point
            elif len(menu) > 3:
                src, dst = rng.sample(range(len(menu)), 2)
                menu[dst]["ts"], menu[dst]["k"], menu[dst]["sat"] = menu[src]["ts"], menu[src]["k"], menu[src]["sat"]
            hs = sim_scripts(tabs, menu, flags, per, rng.choice([50, 70]), rng.randint(1, 10 ** 6),
                             os.path.join(work, "sim%d" % mi), max_flushes=8, max_crashes=1, allow_close=True)
            for j, h in enumerate(hs):
                yield scenario_from_hist("C01-%d-%d" % (mi, j), tabs, menu, h, int_vals=rng.random() < 0.4), tabs

    return store_check(args, "C01", mc_jobs, gen, ALL_INVS, False,
                       ["values of the aggregate catalogue are small integers, so float results are exact",
                        "a value is numeric iff it is an int, a float64 or an array of those (insert.go:221-249)"]
                       + BASE_ASSUMPTIONS, classify=classify, value_oracle=c01_value_oracle)


# ---------------------------------------------------------------- C14

C14_TABLES = [Table("a", fields=("f",), where="all", group=("a",), res=2, ret=4),
              Table("b", fields=("f", "g"), where="by", group=("a", "b"), res=1, ret=3)]
C14_TABLES2 = [Table("a", fields=("f",), where="all", group=("a",), res=3, ret=3),
               Table("b", fields=("f",), where="all", group=(), res=1, ret=5)]
RET_INVS = ["NoExpiredInTruncatedFile", "AtMostOnce", "OffsetsOrdered"]


def aging_menu(rng, n, span=14):
    """Mostly advancing timestamps with late and out-of-order points, several
    points per key so that series straddle the retention boundary."""
    menu, now = [], 0
    for i in range(n):
        now += rng.choice([0, 1, 1, 2, 3])
        ts = now if rng.random() < 0.65 else max(0, now - rng.randint(1, 7))
        ts = min(ts, span)
        k = rng.choice([1, 1, 3, 4])
        vs, nn = (("w", "x"), 1) if rng.random() < 0.8 else (("w",), 2)
        menu.append(point(i + 1, ts, k, vs=vs, n=nn))
    return menu


def check_C14(args):
    def mc_jobs(quick):
        menu = [point(1, 2, 1), point(2, 7, 3, vs=("w", "x")), point(3, 1, 1), point(4, 9, 1)]
        jobs = [dict(tables=C14_TABLES, menu=menu, max_flushes=4, max_crashes=1, trunc_every=2, invs=RET_INVS,
                     props=("NeverDropLive", "NeverStoreExpired"))]
        if not quick:
            jobs.append(dict(tables=C14_TABLES2, menu=menu + [point(5, 4, 4)], max_flushes=5, max_crashes=1,
                             trunc_every=3, invs=RET_INVS, props=("NeverDropLive", "NeverStoreExpired")))
        return jobs

    def gen(rng, quick, work, flags):
        gmenu = [point(1, 2, 1), point(2, 3, 3), point(3, 9, 3), point(4, 10, 1), point(5, 6, 1)]
        gs = goal_scripts(C14_TABLES, gmenu, flags, ["TruncatingFlushOverExpired", "RawFlushOverExpired", "MergeExpiredWithLive"],
                          os.path.join(work, "goals"), max_flushes=4, max_crashes=0, trunc_every=10)
        for g, h in gs.items():
            if h:
                yield scenario_from_hist("C14-g-%s" % g, C14_TABLES, gmenu, h), C14_TABLES
        # directed: a flush after every point, so that the 10th (re-encoding,
        # truncating) flush runs over rows with expired periods
        for di in range(4 if quick else 24):
            # (long enough for two truncation cycles; table b filters points, so flush requests
            # that find its memstore empty - offset-file writes - fall on every slot of the cycle)
            menu = aging_menu(rng, 13 if di % 2 else 24, span=14 if di % 2 else 26)
            d = Directed(C14_TABLES, menu)
            for i in range(len(menu)):
                d.insert_and_process()
                for t in C14_TABLES:
                    d.flush(t.name)
            yield scenario_from_hist("C14-d%d" % di, C14_TABLES, menu, d.h, subsets=rng), C14_TABLES
        # the truncation cycle with idle flush requests on every slot: table b filters the
        # points of key 1, a flush after such a point finds its memstore empty (offset-file
        # write); nine data-carrying flushes, the idle request on slot `at', ten more
        for at in ([9] if quick else [9, 8, 10, 19, 0]):
            menu = []
            for i in range(20):
                k = 1 if i == at else rng.choice([3, 4])
                menu.append(point(i + 1, 1 + i // 2, k, vs=("w", "x")))
            d = Directed(C14_TABLES, menu)
            for i in range(len(menu)):
                d.insert_and_process()
                d.flush("b")
                if i % 3 == 2:
                    d.flush("a")
            yield scenario_from_hist("C14-cycle%d" % at, C14_TABLES, menu, d.h, subsets=rng), C14_TABLES
        n_menus, per = (6, 16) if quick else (50, 80)
        for mi in range(n_menus):
            tabs = rng.choice([C14_TABLES, C14_TABLES2])
            menu = aging_menu(rng, rng.randint(6, 12))
            long = mi % 3 == 0
            hs = sim_scripts(tabs, menu, flags, per, 110 if long else 50, rng.randint(1, 10 ** 6),
                             os.path.join(work, "sim%d" % mi), max_flushes=26 if long else 8, max_crashes=1,
                             allow_crash=mi % 2 == 0, allow_close=True)
            for j, h in enumerate(hs):
                yield scenario_from_hist("C14-%d-%d" % (mi, j), tabs, menu, h, subsets=rng), tabs

    st14 = {"runs_of_raw_flushes": 0, "longest": 0}

    def post_judge(V, scenarios, traces):
        # "... once a period has expired and a truncating flush has run (at most ten data-carrying
        # flushes) ...": within one incarnation of the database, at most nine data-carrying
        # flushes of a table in a row may take the raw pass-through; the tenth must re-encode
        # (and thereby truncate) every row.  Read off the flush.begin events of the real code.
        by_id = {s["scn"]: s for s in scenarios}
        for scn, lines in traces.items():
            run = {}
            for l in lines:
                a = l.get("a")
                if a in ("Crash", "Close", "Open", "Start", "Reset"):
                    run = {}
                elif a == "FlushBegin":
                    t = l["t"]
                    run[t] = 0 if l.get("noRaw") else run.get(t, 0) + 1
                    st14["longest"] = max(st14["longest"], run[t])
                    if run[t] == 1:
                        st14["runs_of_raw_flushes"] += 1
                    if run[t] == 10:
                        rp = common.save_replay("C14", scn + "-notrunc", {"scenario": by_id[scn], "kind": "truncating-flush-skipped", "line": l})
                        V.violation(rp, "%s: table %s has made 10 data-carrying flushes in a row without a truncating one (flush.begin "
                                        "events of one incarnation): expired periods of rows that get no new points stay on disk" % (scn, t))

    def extra_cov(scenarios, traces):
        return {"runs_of_raw_flushes_checked": st14["runs_of_raw_flushes"], "longest_run_of_raw_flushes": st14["longest"]}

    return store_check(args, "C14", mc_jobs, gen, RET_INVS, True,
                       ["virtual clock: now = newest accepted timestamp since the last open; it restarts at zero on open",
                        "a period ending at P is expired iff P <= now - retention",
                        "the harness maps WAL offsets to entries by entry content"],
                       end_oracle=False, decision_lines=True, post_judge=post_judge, extra_cov=extra_cov)


# ---------------------------------------------------------------- C15

C15_TABLES = [Table("a", fields=("f", "g"), where="all", group=("a",), res=2),
              Table("b", fields=("pc", "f", "mxv"), where="bx", group=("a", "b"), res=1)]
ALTER_INVS = ["AtMostOnce", "OffsetsOrdered"]


def random_field_menu(rng, table, n):
    """Successive field lists: permutations, insertions and deletions; an id
    that was removed is never added again (fresh identities only), and one
    decodable field is always retained."""
    pool = [f for f in ["f", "g", "h", "i", "pc", "mxv", "avv"]]
    cur = list(table.fields)
    used = set(cur)
    keep = next(f for f in cur if f in FIELDS)
    out = []
    for _ in range(n):
        for _ in range(20):
            new = list(cur)
            r = rng.random()
            fresh = [f for f in pool if f not in used]
            if r < 0.3 and len(new) > 1:
                rng.shuffle(new)
            elif r < 0.65 and fresh:
                new.insert(rng.randint(0, len(new)), rng.choice(fresh))
            else:
                cand = [f for f in new if f != keep]
                if cand:
                    new.remove(rng.choice(cand))
            if new != cur:
                break
        if new == cur:
            break
        used |= set(new)
        cur = new
        out.append(["p"] + cur)
    return out


def check_C15(args):
    props = ("AlterKeepsRetained", "AddedStartEmpty", "FlushInvisible")

    def mc_jobs(quick):
        fm = {"a": [["p", "g", "f"], ["p", "f", "h"]], "b": [["p", "f"]]}
        wm = {"a": ["by"]}
        jobs = [dict(tables=MC_TABLES, menu=MC_MENU[:2], max_flushes=2, max_crashes=1, invs=ALTER_INVS, props=props,
                     field_menu={"a": fm["a"]}, where_menu=wm)]
        if not quick:
            jobs.append(dict(tables=MC_TABLES, menu=MC_MENU, max_flushes=3, max_crashes=1, invs=ALTER_INVS, props=props,
                             field_menu=fm, where_menu=wm))
            fm2 = {"a": [["p", "f", "g", "h"], ["p", "h", "f"], ["p", "f"]], "b": [["p", "g", "f"]]}
            jobs.append(dict(tables=MC_TABLES, menu=MENU2[:3], max_flushes=4, max_crashes=1, invs=ALTER_INVS, props=props,
                             field_menu=fm2, where_menu={"b": ["all"]}))
        return jobs

    def gen(rng, quick, work, flags):
        # (points feed different subsets of the fields, so that columns read under
        # the wrong field are visible)
        gmenu = [point(1, 1, 1, vs=("w",)), point(2, 2, 4, vs=("x",)), point(3, 3, 2, vs=("w", "x"))]
        for gi, fm in enumerate([{"a": [["p", "g", "f"]]}, {"a": [["p", "f", "h", "g"]]}, {"a": [["p", "g"]]}]):
            gs = goal_scripts(C15_TABLES, gmenu, flags, ["RawFlushOldLayout", "RawFlushOldLayoutAfterRestart", "AlterWithDataInMemory"],
                              os.path.join(work, "goals%d" % gi), allow_close=True, max_flushes=3, max_crashes=1,
                              field_menu=fm, trunc_every=10)
            for g, h in gs.items():
                if h:
                    yield scenario_from_hist("C15-g%d-%s" % (gi, g), C15_TABLES, gmenu, h), C15_TABLES
        n_menus, per = (6, 16) if quick else (50, 80)
        for mi in range(n_menus):
            tabs = C15_TABLES
            menu = random_menu(rng, rng.randint(5, 9), nums=True)
            fm = {t.name: random_field_menu(rng, t, rng.randint(1, 4)) for t in tabs}
            wm = {"a": rng.sample(["by", "a1", "all"], rng.randint(0, 2)), "b": rng.sample(["all", "by"], rng.randint(0, 1))}
            hs = sim_scripts(tabs, menu, flags, per, rng.choice([45, 60]), rng.randint(1, 10 ** 6),
                             os.path.join(work, "sim%d" % mi), max_flushes=8, max_crashes=2, allow_close=True,
                             field_menu=fm, where_menu=wm)
            for j, h in enumerate(hs):
                yield scenario_from_hist("C15-%d-%d" % (mi, j), tabs, menu, h, subsets=rng if mi % 2 else None), tabs

    def extra_cov(scenarios, traces):
        n_alt = sum(1 for s in scenarios for c in s["cmds"] if c["a"] == "Alter")
        with_alt_flush_restart = 0
        for s in scenarios:
            acts = [c["a"] for c in s["cmds"]]
            if "Alter" in acts and "FlushSwap" in acts and ("Crash" in acts or "Close" in acts):
                with_alt_flush_restart += 1
        return {"alter_steps": n_alt, "behaviours_with_alter_flush_and_restart": with_alt_flush_restart}

    return store_check(args, "C15", mc_jobs, gen, ALTER_INVS, True,
                       ["a field keeps its identity iff name and expression are unchanged (core.Field.Equals)",
                        "a removed field is never added again in one behaviour (its old column may still be on disk until the next flush)",
                        "all points inside the retention window"] + BASE_ASSUMPTIONS[:1] + BASE_ASSUMPTIONS[2:],
                       end_oracle=False, decision_lines=True, extra_cov=extra_cov)


# ---------------------------------------------------------------- C18

C18_TABLES = [Table("a", fields=("f", "g"), where="all", group=("a", "b"), res=2),
              Table("b", fields=("f",), where="all", group=("a",), res=1)]


def check_C18(args):
    def mc_jobs(quick):
        # the snapshot rule is an axiom of the specification (a scan returns the
        # view captured at its start); the exhaustive run checks that the
        # pipeline it races with keeps its own invariants
        return [dict(tables=MC_TABLES, menu=MC_MENU, max_flushes=3, max_crashes=0)]

    def gen(rng, quick, work, flags):
        n_menus, per = (6, 20) if quick else (50, 100)
        for mi in range(n_menus):
            tabs = C18_TABLES
            # several points per key and period so that later inserts land in rows
            # that are already delivered, not yet delivered, and in new rows
            menu = random_menu(rng, rng.randint(7, 12), ticks=(1, 5))
            hs = sim_scripts(tabs, menu, flags, per, rng.choice([45, 60]), rng.randint(1, 10 ** 6),
                             os.path.join(work, "sim%d" % mi), max_flushes=6, max_crashes=0, allow_crash=False,
                             allow_close=False, max_scans=4)
            for j, h in enumerate(hs):
                yield scenario_from_hist("C18-%d-%d" % (mi, j), tabs, menu, h, probe_every=False), tabs
        # scans that start while a flush has installed the new file store and has not yet
        # returned (the flush is parked at flush.done): file store and memstore must be
        # the pair of one instant
        for fi in range(10 if quick else 80):
            tabs = C18_TABLES
            menu = random_menu(rng, rng.randint(5, 9), ticks=(1, 5), arrays=False, nonnumeric=False)
            d = Directed(tabs, menu)
            for i in range(len(menu)):
                d.insert_and_process()
                if rng.random() < 0.5:
                    d.flush(rng.choice(tabs).name)
            yield scenario_from_hist("C18-f%d" % fi, tabs, menu, d.h, probe_every=True), tabs
        # directed placements: build a table state, hold a scan after its j-th
        # row, then drive further points (into rows already delivered, rows not
        # yet delivered and new rows) and optionally a flush through the gates
        # before the scan is released
        # a row on an inner node of the memstore's radix tree (the empty key of points
        # without the table's dimension is a prefix of every other key) updated in place
        # while a scan that has taken its copy has not delivered it yet
        for pi, (k0, kk) in enumerate([(7, (1, 2)), (7, (2, 4)), (10, (8, 8))]):
            tabs = C18_TABLES
            tn = "b" if k0 == 7 else "a"
            menu = [point(1, 2, k0), point(2, 2, kk[0]), point(3, 3, kk[1]), point(4, 2, k0), point(5, 1, k0)]
            for hold in (True, False):
                d = Directed(tabs, menu)
                for i in range(3):
                    d.insert_and_process()
                d.h.append({"a": "ScanBegin", "t": tn, "mem": True, "j": 0 if hold else 1, "hold": hold})
                d.insert_and_process()
                d.insert_and_process()
                d.h.append({"a": "ScanEnd", "t": tn})
                yield scenario_from_hist("C18-p%d%s" % (pi, "h" if hold else ""), tabs, menu, d.h, probe_every=False), tabs
        for di in range(40 if quick else 600):
            tabs = C18_TABLES
            n0, n1 = rng.randint(2, 6), rng.randint(1, 5)
            # every third scenario uses keys whose encodings are byte-prefixes of each other
            # (no dimension at all, an explicit nil): rows that sit on inner nodes of the radix tree
            keys = [7, 10, 8, 1, 2] if di % 3 == 1 else None
            menu = random_menu(rng, n0 + n1, ticks=(1, 4), arrays=False, nonnumeric=False, keys=keys)
            t = rng.choice(tabs).name
            d = Directed(tabs, menu)
            for i in range(n0):
                d.insert_and_process()
                if rng.random() < 0.2:
                    d.flush(t)
            if di % 3 == 2 and d.dirty[t]:
                # the flush's store swap falls between the scan taking its file
                # store / memstore copy and opening the file
                d.h += [{"a": "FlushBegin", "t": t}, {"a": "FlushTemp", "t": t}, {"a": "FlushRename", "t": t}]
                d.h.append({"a": "ScanBegin", "t": t, "mem": True, "j": rng.randint(0, 3), "hold": True})
                d.h.append({"a": "FlushSwap", "t": t})
                d.dirty[t] = d.moved[t] = False
                for i in range(n1):
                    d.insert_and_process()
                d.h.append({"a": "ScanEnd", "t": t})
            else:
                d.h.append({"a": "ScanBegin", "t": t, "mem": True, "j": rng.randint(0, 3), "hold": rng.random() < (0.6 if keys else 0.3)})
                for i in range(n1):
                    d.insert_and_process()
                    if rng.random() < 0.25:
                        d.flush(t)
                d.h.append({"a": "ScanEnd", "t": t})
            yield scenario_from_hist("C18-d%d" % di, tabs, menu, d.h, probe_every=False), tabs

    def extra_cov(scenarios, traces):
        held = racing = 0
        for s in scenarios:
            acts = [c["a"] for c in s["cmds"]]
            for i, a in enumerate(acts):
                if a == "ScanBegin":
                    held += 1
                    j = i + 1
                    while j < len(acts) and not (acts[j] == "ScanEnd" and s["cmds"][j]["t"] == s["cmds"][i]["t"]):
                        if acts[j] in ("Apply", "FlushSwap") and s["cmds"][j]["t"] == s["cmds"][i]["t"]:
                            racing += 1
                            break
                        j += 1
        return dict({"held_scans": held, "held_scans_overlapping_an_apply_or_swap_of_their_table": racing,
                     "free_running_processes": fst["dirs"], "free_running_scan_results": fst["results"],
                     "free_running_results_of_a_strict_prefix": fst["strict_prefixes"]},
                    **{k: v for k, v in fst.items() if k.startswith("pipeline_trace")})

    fst = {"dirs": 0, "results": 0, "nonempty": 0, "strict_prefixes": 0}

    def post_judge(V, scenarios, traces):
        if not args.replay:
            free_part("C18", V, random.Random(common.seed() * 17 + 18), quick_tier(), fst)

    return store_check(args, "C18", mc_jobs, gen, ["MemLockStep", "AtMostOnce"], True,
                       ["a scan is held by blocking its row callback after the j-th flat row (j = 1..3); "
                        "inserts, row-store applies and flush steps are then driven through the gates before it is released",
                        "schema static, all points inside the retention window",
                        "free-running part: a child process inserts while 1-3 ms timer flushes and memstore-inclusive scans run; every result "
                        "must be exactly the content of a prefix of the stream, prefixes of successive scans of a table do not shrink"] + BASE_ASSUMPTIONS[:1],
                       end_oracle=False, extra_cov=extra_cov, post_judge=post_judge)


# ---------------------------------------------------------------- C04

def check_C04(args):
    def mc_jobs(quick):
        # every query action of the specification leaves all variables unchanged
        # (TQueryStart/TQueryResult/TOther in TraceStore, Probe in SimStore); the
        # exhaustive run covers the storage states the queries are run against
        return [dict(tables=MC_TABLES, menu=MC_MENU, max_flushes=3, max_crashes=1)]

    def gen(rng, quick, work, flags):
        n_menus, per = (6, 16) if quick else (60, 100)
        for mi in range(n_menus):
            tabs = C03_TABLES
            # few keys, many periods per key: series long enough for time ranges
            # that end before the newest stored period
            menu = random_menu(rng, rng.randint(8, 12), ticks=(1, 9), keys=rng.choice([[1, 3], [3, 4], [1, 3, 4]]),
                               nonnumeric=False)
            hs = sim_scripts(tabs, menu, flags, per, rng.choice([50, 70]), rng.randint(1, 10 ** 6),
                             os.path.join(work, "sim%d" % mi), max_flushes=6, max_crashes=2, allow_close=True)
            for j, h in enumerate(hs):
                yield scenario_from_hist("C04-%d-%d" % (mi, j), tabs, menu, h, others=rng), tabs

    def extra_cov(scenarios, traces):
        qs = [c["sql"] for s in scenarios for c in s["cmds"] if c["a"] == "RunSQL"]
        ran = [l for ls in traces.values() for l in ls if l["a"] == "Other"]
        return {"queries_run": len(ran), "distinct_queries": len(set(qs)),
                "queries_returning_rows": sum(1 for l in ran if l.get("nrows", 0) > 0),
                "queries_with_time_range": sum(1 for q in set(qs) if "UNTIL" in q or "ASOF" in q),
                "sample_queries": sorted(set(qs))[:8]}

    return store_check(args, "C04", mc_jobs, gen, ["MemLockStep", "DiskLockStep", "ExactlyOnce"], True,
                       ["probe = SELECT * (all fields, no grouping) with and without the memstore, compared with the "
                        "specification's view before and after every generated query and again after the next flush",
                        "generated queries: select lists incl. derived and shifted fields, relative and absolute ASOF/UNTIL "
                        "(incl. ranges ending before the newest stored period), grouping, period multiples, stride, "
                        "crosstab, FROM- and IN-sub-queries, having, order, limit"] + BASE_ASSUMPTIONS,
                       extra_cov=extra_cov)


class Directed:
    """Builds an action list (like a TLC behaviour) for a chosen schedule while
    tracking what the model would enable: a flush of a table whose memstore is
    empty is an OffWrite (if its offset moved) or nothing."""

    def __init__(self, tables, menu):
        self.tables, self.menu = tables, menu
        self.h = [{"a": "Start"}]
        self.dirty = {t.name: False for t in tables}     # memstore has cells
        self.moved = {t.name: False for t in tables}     # offset changed since last write
        self.n = 0
        self.clock = 0                                   # newest accepted timestamp (the virtual clock)

    def insert_and_process(self):
        self.n += 1
        p = self.menu[self.n - 1]
        self.h.append({"a": "Insert", "i": self.n})
        for t in self.tables:
            self.h.append({"a": "Decide", "t": t.name})
            # insert.go: older than the retention window -> ignored; then WHERE; then the clock advances
            expired = p["ts"] < self.clock - t.ret
            passes = WHERES[t.where][1](plain_dims(KEYS[p["k"]])) and not expired
            if passes:
                self.clock = max(self.clock, p["ts"])
            if passes and not p["vs"]:
                continue                       # accepted, but nothing to apply
            self.h.append({"a": "Apply", "t": t.name})
            self.moved[t.name] = True
            if passes:
                self.dirty[t.name] = True

    def flush(self, tn):
        if self.dirty[tn]:
            self.h += [{"a": "FlushBegin", "t": tn}, {"a": "FlushTemp", "t": tn}, {"a": "FlushRename", "t": tn},
                       {"a": "FlushSwap", "t": tn}]
            self.dirty[tn] = self.moved[tn] = False
        elif self.moved[tn]:
            self.h.append({"a": "OffWrite", "t": tn})
            self.moved[tn] = False


# ---------------------------------------------------------------- C17

def c17_set(rng, t, now):
    """2-8 queries against table t: different field subsets, limits, time
    ranges, memstore options, one of them possibly with an expired deadline."""
    dec = [f for f in t.fields if f in FIELDS]
    cands = [
        dict(sql="SELECT * FROM %s" % t.name, mem=True, probe=t.name),
        dict(sql="SELECT * FROM %s" % t.name, mem=False, probe=t.name),
        dict(sql="SELECT %s FROM %s" % (dec[0], t.name), mem=rng.random() < 0.5),
        dict(sql="SELECT %s FROM %s" % (", ".join(reversed(dec)), t.name), mem=True),
        dict(sql="SELECT _points FROM %s" % t.name, mem=rng.random() < 0.5),
        dict(sql="SELECT * FROM %s ASOF '-%ds' UNTIL '-%ds'" % (t.name, rng.randint(5, 9), rng.randint(1, 4)), mem=True),
        dict(sql="SELECT %s FROM %s ASOF '-%ds' UNTIL '-%ds' GROUP BY period(%ds)" % (dec[0], t.name, rng.randint(6, 9), rng.randint(2, 4), 2 * t.res), mem=True),
        dict(sql="SELECT %s FROM %s GROUP BY %s, period(%ds)" % (dec[-1], t.name, t.group[0], 2 * t.res), mem=rng.random() < 0.5),
        dict(sql="SELECT * FROM %s LIMIT 1" % t.name, mem=True, limit=1, of="SELECT * FROM %s" % t.name),
        dict(sql="SELECT %s FROM %s ORDER BY _time DESC LIMIT 2" % (dec[0], t.name), mem=True),
        dict(sql="SELECT * FROM %s" % t.name, mem=True, timeoutUs=1, expired=True),
    ]
    k = rng.randint(2, 8)
    chosen = rng.sample(cands, k)
    if not any(c.get("probe") for c in chosen):
        chosen[0] = cands[rng.randint(0, 1)]
    if rng.random() < 0.5:
        # a member whose own row handling fails on the table's rows (a string function over a
        # numeric dimension): it ends with an error, alone and in company, and the queries that
        # share its scan are none of its business
        chosen.insert(rng.randrange(len(chosen) + 1),
                      rng.choice([dict(sql="SELECT %s FROM %s GROUP BY SUBSTR(a, 0, 1) AS a1" % (dec[0], t.name), mem=True),
                                  dict(sql="SELECT %s FROM %s WHERE SUBSTR(a, 0, 1) = 'x'" % (dec[0], t.name), mem=True)]))
    for i, c in enumerate(chosen):
        c["id"] = "q%d" % i
    return chosen


def check_C17(args):
    def mc_jobs(quick):
        return [dict(tables=MC_TABLES, menu=MC_MENU, max_flushes=2, max_crashes=0)]

    def gen(rng, quick, work, flags):
        for di in range(48 if quick else 800):
            tabs = C03_TABLES
            n = rng.randint(5, 10)
            menu = random_menu(rng, n, ticks=(1, 9), keys=rng.choice([[1, 3], [3, 4], [1, 2, 3, 4]]), nonnumeric=False)
            d = Directed(tabs, menu)
            for i in range(1, n + 1):
                d.insert_and_process()
                if rng.random() < 0.25:
                    d.flush(rng.choice(tabs).name)
            h = d.h
            sc = scenario_from_hist("C17-%d" % di, tabs, menu, h, probe_every=False,
                                    opts={"coalesceMs": 60})
            tail = []
            for si in range(2):
                t = rng.choice(tabs)
                st = c17_set(rng, t, 9)
                members = [{k: v for k, v in q.items() if k in ("id", "sql", "mem", "timeoutUs", "probe")} for q in st]
                tail.append({"a": "RunSet", "set": members, "concurrent": False, "setId": "s%d-solo" % si})
                tail.append({"a": "RunSet", "set": members, "concurrent": True, "setId": "s%d-conc" % si})
            # the sets go after the final Settle, before the final probes
            idx = max(i for i, c in enumerate(sc["cmds"]) if c["a"] == "Settle") + 1
            sc["cmds"][idx:idx] = tail
            sc["sets"] = True
            yield sc, tabs

    stats = {"sets": 0, "members": 0, "coalesced_sets": 0, "max_group": 0, "mismatch": 0}

    def value_oracle(sc, t, result, n_entries):
        return []

    def extra_cov(scenarios, traces):
        return dict(stats)

    # the judgement of the sets happens on the traces: wrap run_and_judge through a classify hook
    def judge_sets(V, scenarios, traces):
        by_id = {s["scn"]: s for s in scenarios}
        for scn, lines in traces.items():
            sets = {}
            for l in lines:
                if l.get("a") == "Other" and "set" in l:
                    base, kind = l["set"].rsplit("-", 1)
                    sets.setdefault(base, {}).setdefault(kind, {})[l["id"]] = l
            for base, kinds in sets.items():
                if "solo" not in kinds or "conc" not in kinds:
                    continue
                stats["sets"] += 1
                grp = max(1, len(kinds["conc"]) - (next(iter(kinds["conc"].values())).get("scans", 1) - 1))
                if next(iter(kinds["conc"].values())).get("scans", 0) < len(kinds["conc"]):
                    stats["coalesced_sets"] += 1
                stats["max_group"] = max(stats["max_group"], grp)
                for qid, solo in kinds["solo"].items():
                    conc = kinds["conc"].get(qid)
                    stats["members"] += 1
                    if conc is None:
                        continue
                    if solo["sql"].endswith("LIMIT 1"):
                        same = (len(conc["raw"]) == len(solo["raw"])) and ("err" in conc) == ("err" in solo)
                    elif "err" in solo:
                        # a query that fails alone (expired deadline) may fail in company
                        same = "err" in conc
                    else:
                        key = lambda r: json.dumps(r, sort_keys=True)
                        same = sorted(map(key, conc["raw"])) == sorted(map(key, solo["raw"])) and "err" not in conc
                    if not same:
                        stats["mismatch"] += 1
                        rp = common.save_replay("C17", "%s-%s-%s" % (scn, base, qid),
                                                {"scenario": by_id[scn], "kind": "coalesced-vs-solo", "query": solo["sql"],
                                                 "mem": solo["mem"], "solo": {k: solo.get(k) for k in ("raw", "err")},
                                                 "concurrent": {k: conc.get(k) for k in ("raw", "err", "scans")},
                                                 "companions": [x["sql"] + (" [mem]" if x["mem"] else "") for x in kinds["conc"].values()]})
                        V.violation(rp, "%s %s: `%s` (mem=%s) returned %d rows%s when run together with %d other queries, %d rows%s alone"
                                    % (scn, base, solo["sql"], solo["mem"], len(conc["raw"]), " and an error" if "err" in conc else "",
                                       len(kinds["conc"]) - 1, len(solo["raw"]), " and an error" if "err" in solo else ""))

    return store_check(args, "C17", mc_jobs, gen, ["MemLockStep"], True,
                       ["queries of a set are started together from goroutines released by one barrier with a coalesce "
                        "interval of 60 ms; the number of scans observed (iter.start hook) says how many were coalesced",
                        "reference = the same queries run one after the other on the same quiescent data; plain probes are "
                        "additionally bound to the specification's view (a disk-only probe must not return memstore data)",
                        "unordered LIMIT: only the number of rows is compared"] + BASE_ASSUMPTIONS[:1],
                       end_oracle=False, extra_cov=extra_cov, post_judge=judge_sets)


# ---------------------------------------------------------------- C06 / C07

Q_TABLES = [Table("a", fields=("f", "g"), where="all", group=("a", "b"), res=2, ret=1000),
            Table("b", fields=("f",), where="all", group=("a",), res=1, ret=1000),
            Table("c", fields=("g", "f"), where="all", group=("a", "b"), res=2, ret=10)]


def bound(rng, kind_p, now, span):
    r = rng.random()
    if r < kind_p[0]:
        return {"k": "none", "v": 0}
    if r < kind_p[1]:
        # (an offset of 0 is "not given" to the parser: ASOF '0s' is ignored)
        return {"k": "rel", "v": -rng.randint(1, max(1, span))}
    return {"k": "abs", "v": rng.randint(0, now + 2)}


def sql_bound(b):
    if b["k"] == "rel":
        return "'-%ds'" % (-b["v"]) if b["v"] else "'0s'"
    return "'2020-01-01T00:00:%02dZ'" % b["v"]


def gquery(rng, t, now, ranged=True, grouped=True, where=None):
    """An abstract grouped / time-ranged query of table t and its SQL."""
    dims = [g for g in t.group]
    by = "*"
    if grouped and rng.random() < 0.7:
        sub = [d for d in dims if rng.random() < 0.5]
        by = ",".join(sorted(sub))
    m = 0
    if grouped and rng.random() < 0.7:
        m = rng.choice([1, 2, 3, 5, 7, 2, 3])
    as_of = {"k": "none", "v": 0}
    until = {"k": "none", "v": 0}
    if ranged and rng.random() < 0.8:
        as_of = bound(rng, (0.0, 0.55), now, now + 1)
        if rng.random() < 0.75:
            until = bound(rng, (0.0, 0.55), now, now)
    fields = [f for f in t.flds() if rng.random() < 0.6] or ["p"]
    sel = ", ".join("_points" if f == "p" else f for f in fields)
    extra = ""
    if rng.random() < 0.3 and "f" in t.fields:
        extra = ", f / _points AS ratio"
    sql = "SELECT %s%s FROM %s" % (sel, extra, t.name)
    if as_of["k"] != "none":
        sql += " ASOF " + sql_bound(as_of)
        if until["k"] != "none":
            sql += " UNTIL " + sql_bound(until)
    if where:
        sql += " WHERE " + QPREDS[where][0]
    gb = []
    if by == "":
        gb.append("_")
    elif by != "*":
        gb += by.split(",")
    if m:
        gb.append("period(%ds)" % (m * t.res))
    if gb:
        sql += " GROUP BY " + ", ".join(gb)
    desc = {"by": by, "m": m, "asOf": as_of, "until": until, "w": where or ""}
    return {"a": "GQuery", "t": t.name, "mem": rng.random() < 0.7, "sql": sql, "desc": desc, "fields": fields}


def ratio_oracle(sc, traces_lines):
    """f / _points recomputed from merged components (C06): the ratio column of a
    row equals its f value divided by its _points value when both are selected."""
    bad = []
    for l in traces_lines:
        if l.get("a") != "GQueryResult" or l.get("err"):
            continue
        for r in l.get("raw", []):
            v = r["v"]
            if "ratio" in v and "f" in v and "_points" in v and v["_points"]:
                if abs(v["ratio"] - v["f"] / v["_points"]) > 1e-9 * max(1.0, abs(v["ratio"])):
                    bad.append([l["sql"], r])
    return bad


def grouped_check(args, pid, ranged, grouped, text_assumptions):
    def mc_jobs(quick):
        return [dict(tables=MC_TABLES, menu=MC_MENU, max_flushes=2, max_crashes=0)]

    qstats = {"queries": 0, "with_rows": 0, "errors": 0, "distinct": set(), "periods_gt_window": 0}

    def gen(rng, quick, work, flags):
        for di in range(40 if quick else 600):
            tabs = Q_TABLES
            n = rng.randint(6, 12)
            menu = random_menu(rng, n, ticks=(1, 12), keys=rng.choice([[1, 3], [1, 2, 3, 4], [3, 4]]), nonnumeric=False)
            d = Directed(tabs, menu)
            now = 0
            script = []
            for i in range(n):
                d.insert_and_process()
                now = max(now, menu[i]["ts"])
                if rng.random() < 0.3:
                    d.flush(rng.choice(tabs).name)
                if i >= 2 and rng.random() < 0.5:
                    d.h.append({"a": "Probe"})
                    d.h.append({"a": "GQ", "now": now})
            d.h.append({"a": "GQ", "now": now})
            # scenario_from_hist does not know GQ: splice the queries in afterwards
            marks = [x for x in d.h if x["a"] == "GQ"]
            hist = [x for x in d.h]
            sc_cmds = []
            sc = scenario_from_hist("%s-%d" % (pid, di), tabs, menu, [x for x in hist if x["a"] != "GQ"], probe_every=False)
            # rebuild with GQuery commands after every Probe block and at the end
            out = []
            qi = 0
            for c in sc["cmds"]:
                out.append(c)
            # append queries before the final Settle: simplest placement that keeps gating exact
            idx = max(i for i, c in enumerate(out) if c["a"] == "Settle") + 1
            qs = []
            for _ in range(rng.randint(6, 14)):
                t = rng.choice(tabs)
                q = gquery(rng, t, now, ranged=ranged, grouped=grouped)
                qs.append(q)
            out[idx:idx] = qs
            sc["cmds"] = out
            yield sc, tabs

    def post_judge(V, scenarios, traces):
        by_id = {s["scn"]: s for s in scenarios}
        for scn, lines in traces.items():
            for l in lines:
                if l.get("a") == "GQueryResult":
                    qstats["queries"] += 1
                    qstats["distinct"].add(l["sql"])
                    if l.get("err"):
                        qstats["errors"] += 1
                    elif l["rows"]:
                        qstats["with_rows"] += 1
            bad = ratio_oracle(by_id[scn], lines)
            if bad:
                rp = common.save_replay(pid, scn + "-ratio", {"scenario": by_id[scn], "kind": "ratio", "bad": bad[:5]})
                V.violation(rp, "%s: ratio field not recomputed from merged components: %s" % (scn, bad[0]))

    def extra_cov(scenarios, traces):
        return {"bound_queries": qstats["queries"], "queries_returning_rows": qstats["with_rows"],
                "queries_in_error": qstats["errors"], "distinct_queries": len(qstats["distinct"]),
                "sample_queries": sorted(qstats["distinct"])[:6]}

    return store_check(args, pid, mc_jobs, gen, ["AtMostOnce"], True, text_assumptions + BASE_ASSUMPTIONS[:1],
                       end_oracle=False, extra_cov=extra_cov, post_judge=post_judge, observation_lines=("QueryResult", "GQueryResult"))


def check_C06(args):
    return grouped_check(args, "C06", ranged=False, grouped=True, text_assumptions=[
        "what is checked is the statement relative to the timestamps T of the rows actually returned: rows of one key at least P "
        "apart; a row holds exactly the native cells projecting to its key with period end in (T-P, T] (inside the window); every "
        "native cell inside the window is covered; f / _points is recomputed from the merged components",
        "group-by subsets of the table's dimensions incl. none, period multiples 1 2 3 5 7 (non-divisors of the window, larger than the window)"])


def check_C07(args):
    return grouped_check(args, "C07", ranged=True, grouped=True, text_assumptions=[
        "a period wholly inside (asOf, until] must be returned, a period wholly outside must not, a period straddling a bound may "
        "go either way (the statement leaves it open); without a range the window is (now - retention, now]",
        "relative and absolute bounds at tick granularity against tables of resolution 1 and 2 ticks, combined with grouping and period multiples"])


# ---------------------------------------------------------------- C08

C08_TABLES = [Table("a", fields=("f", "g"), where="all", group=("a", "b"), res=2, ret=1000),
              Table("b", fields=("f",), where="all", group=("b",), res=2, ret=1000)]


def rawq(sql, mem, lid):
    return {"a": "RunSet", "set": [{"id": lid, "sql": sql, "mem": mem}], "concurrent": False, "setId": lid + "-solo"}


def cells_of(rows, fields):
    """Decoded cells {(key, T, field, id): count} of raw rows for decodable fields."""
    out = {}
    for r in rows:
        for f in fields:
            v = r["v"].get("_points" if f == "p" else f, 0)
            if f == "p":
                if v:
                    out[(r["k"], r["p"], "p", 0)] = int(v)
                continue
            n, i = int(v), 0
            while n:
                if n & 3:
                    out[(r["k"], r["p"], f, i)] = n & 3
                n >>= 2
                i += 1
    return out


def regroup_ok(inner, outer, by, P, fields):
    """The outer rows are a regrouping of the inner rows (same statement as C06,
    relative to the timestamps of the outer rows)."""
    I, O = cells_of(inner, fields), cells_of(outer, fields)
    for (k1, t1, f1, i1) in O:
        for (k2, t2, f2, i2) in O:
            if k1 == k2 and t1 < t2 and t2 - t1 < P:
                return "outer rows of key %r closer than the period" % k1
    for (k, T, f, i), c in O.items():
        feed = sum(cnt for (ik, ip, iff, ii), cnt in I.items()
                   if project_key(ik, by) == k and iff == f and (f == "p" or ii == i) and T - P < ip <= T)
        if feed != c:
            return "outer cell %s has %d, the inner rows in (T-P, T] give %d" % ((k, T, f, i), c, feed)
    for (ik, ip, iff, ii), cnt in I.items():
        if not any(k == project_key(ik, by) and f == iff and (f == "p" or i == ii) and T - P < ip <= T for (k, T, f, i) in O):
            return "inner cell %s is in no outer row" % ((ik, ip, iff, ii),)
    return None


def check_C08(args):
    pid = "C08"

    def mc_jobs(quick):
        return [dict(tables=MC_TABLES, menu=MC_MENU, max_flushes=2, max_crashes=0)]

    st = {"where": 0, "having": 0, "in": 0, "from": 0, "in_skipped": 0, "nontrivial": 0}
    laws = {}

    def gen(rng, quick, work, flags):
        for di in range(40 if quick else 600):
            tabs = C08_TABLES
            n = rng.randint(6, 12)
            menu = random_menu(rng, n, ticks=(1, 10), keys=sorted(KEYS), nonnumeric=False)
            d = Directed(tabs, menu)
            for i in range(n):
                d.insert_and_process()
                if rng.random() < 0.3:
                    d.flush(rng.choice(tabs).name)
            sc = scenario_from_hist("%s-%d" % (pid, di), tabs, menu, d.h, probe_every=False)
            idx = max(i for i, c in enumerate(sc["cmds"]) if c["a"] == "Settle") + 1
            qs = []
            ta = tabs[0]
            law = {}
            # WHERE: bound to the specification (KeySat)
            for _ in range(rng.randint(3, 6)):
                qs.append(gquery(rng, ta, 10, ranged=False, grouped=rng.random() < 0.6, where=rng.choice(sorted(QPREDS))))
            # HAVING: rows of the HAVING-free query that satisfy the predicate
            for hi in range(rng.randint(2, 4)):
                by = rng.choice(["a", "b", "a, b", "_"])
                thr = rng.choice([0, 3, 4 ** rng.randint(1, 5), 2 * 4 ** rng.randint(1, 4)])
                hf, sel = rng.choice([("f", "f"), ("g", "f"), ("_points", "f, g"), ("f", "f, g"), ("g", "_points")])
                op = rng.choice([">", "<", ">=", "="])
                thr = thr if hf != "_points" else rng.choice([0, 1, 2, 3])
                mem = rng.random() < 0.7
                base = "SELECT %s%s FROM a GROUP BY %s, period(%ds)" % (sel, "" if hf in sel.split(", ") else ", " + hf, by, rng.choice([2, 4]))
                withh = base.replace("SELECT %s%s" % (sel, "" if hf in sel.split(", ") else ", " + hf), "SELECT " + sel) + " HAVING %s %s %d" % (hf, op, thr)
                lid = "h%d" % hi
                qs += [rawq(base, mem, lid + "base"), rawq(withh, mem, lid + "with")]
                law[lid] = {"kind": "having", "field": hf, "op": op, "thr": thr, "sel": sel.split(", ")}
            # IN (subquery) = IN (literal list of the distinct values it returns)
            for ii in range(rng.randint(1, 3)):
                cond = rng.choice(["", " WHERE b = 'y'", " WHERE b <> 'y'", " HAVING f > 16"])
                sub = "SELECT b FROM b%s" % cond                       # nested form: selects the dimension
                # the same query run on its own: a sub-query selects _points (planner.fixupSubQuery), so a
                # key whose points carry none of the field's values still counts
                alone = "SELECT _points FROM b%s" % cond
                outer = "SELECT f FROM a WHERE b IN %%s%s" % rng.choice(["", " GROUP BY a, b", " GROUP BY b, period(4s)"])
                qs.append({"a": "InLaw", "sub": sub, "sql": alone, "dim": "b", "outer": outer, "mem": rng.random() < 0.7,
                           "lawId": "i%d" % ii})
            # two IN (subquery) in one WHERE: each must get the values of its own sub-query
            for ii in range(rng.randint(1, 2)):
                c1 = rng.choice(["", " WHERE b = 'y'", " WHERE b <> 'y'"])
                c2 = rng.choice(["", " WHERE a = 1", " WHERE b = 'x'", " WHERE a <> 1"])
                outer = "SELECT f FROM a WHERE b IN %%s %s a IN %%s%s" % (rng.choice(["AND", "OR"]), rng.choice(["", " GROUP BY a, b", " GROUP BY a, period(4s)"]))
                qs.append({"a": "InLaw", "sub": "SELECT b FROM b%s" % c1, "sql": "SELECT _points FROM b%s" % c1, "dim": "b",
                           "sub2": "SELECT a FROM a%s" % c2, "sql2": "SELECT _points FROM a%s" % c2, "dim2": "a",
                           "outer": outer, "mem": rng.random() < 0.7, "lawId": "j%d" % ii})
            # FROM (subquery): the outer query over the materialised inner result
            for fi in range(rng.randint(1, 3)):
                iby = rng.choice([["a", "b"], ["a"], ["b"]])
                oby = rng.choice([[x for x in iby if rng.random() < 0.5], iby])
                m = rng.choice([1, 2, 3])
                inner = "SELECT f, g FROM a GROUP BY %s, period(2s)" % ", ".join(iby)
                outer = "SELECT f, g FROM (%s) GROUP BY %s period(%ds)" % (inner, "".join(x + ", " for x in oby) if oby else "_, ", 2 * m)
                mem = rng.random() < 0.7
                lid = "s%d" % fi
                qs += [rawq(inner, mem, lid + "inner"), rawq(outer, mem, lid + "outer")]
                law[lid] = {"kind": "from", "by": ",".join(sorted(oby)), "P": 2 * m}
            sc["cmds"][idx:idx] = qs
            laws[sc["scn"]] = law
            sc["laws"] = law          # (kept with the scenario so that a replay can judge it)
            yield sc, tabs

    def post_judge(V, scenarios, traces):
        import operator
        ops = {">": operator.gt, "<": operator.lt, ">=": operator.ge, "=": operator.eq}
        by_id = {s["scn"]: s for s in scenarios}
        for scn, lines in traces.items():
            res = {}
            for l in lines:
                if l.get("a") == "GQueryResult" and l["desc"].get("w"):
                    st["where"] += 1
                    if l["rows"]:
                        st["nontrivial"] += 1
                if l.get("a") == "Other" and "set" in l:
                    res[l["id"]] = l
                if l.get("a") == "Other" and l.get("law") == "in":
                    if l.get("err"):
                        st["in_skipped"] += 1
                        continue
                    st["in"] += 1
                    key = lambda r: json.dumps({"k": r["k"], "p": r["p"], "v": r["v"]}, sort_keys=True)
                    # a sub-query row without the dimension yields NULL, which a literal list cannot
                    # express: rows whose own dimension is missing are left out of the comparison
                    has = lambda r: (r.get("d") or {}).get("b") is not None and ("sub2" not in l or (r.get("d") or {}).get("a") is not None)
                    l = dict(l, nested=[r for r in l["nested"] if has(r)], literal=[r for r in l["literal"] if has(r)])
                    if sorted(map(key, l["nested"])) != sorted(map(key, l["literal"])) or ("errNested" in l) != ("errLiteral" in l):
                        rp = common.save_replay(pid, scn + "-" + l["lawId"], {"scenario": by_id[scn], "kind": "in-law", "line": l})
                        V.violation(rp, "%s: `%s` with the sub-quer%s %s returns %d rows, with the literal list%s %s it returns %d rows"
                                    % (scn, l["outer"], "ies" if "sub2" in l else "y", l["sub"] + (" and " + l["sub2"] if "sub2" in l else ""), len(l["nested"]),
                                       "s" if "sub2" in l else "", str(l["values"]) + (" and " + str(l["values2"]) if "sub2" in l else ""), len(l["literal"])))
                    elif l["nested"]:
                        st["nontrivial"] += 1
            for lid, lw in (laws.get(scn) or by_id[scn].get("laws") or {}).items():
                if lw["kind"] == "having":
                    base, withh = res.get(lid + "base"), res.get(lid + "with")
                    if not base or not withh or "err" in base or "err" in withh:
                        continue
                    st["having"] += 1
                    name = lw["field"]
                    # rows of the HAVING-free query (its own select list has a value) that satisfy the predicate
                    want = [r for r in base["raw"] if ops[lw["op"]](r["v"].get(name, 0), lw["thr"])
                            and any(r["v"].get(f, 0) != 0 for f in lw["sel"])]
                    proj = lambda r: json.dumps({"k": r["k"], "p": r["p"], "v": {f: r["v"].get(f, 0) for f in lw["sel"]}}, sort_keys=True)
                    got = withh["raw"]
                    extra_cols = [c for r in got for c in r["v"] if c not in lw["sel"]]
                    if sorted(map(proj, want)) != sorted(map(proj, got)) or extra_cols:
                        rp = common.save_replay(pid, scn + "-" + lid, {"scenario": by_id[scn], "kind": "having-law", "base": base, "with": withh, "law": lw})
                        V.violation(rp, "%s: `%s` returns %d rows%s; the rows of `%s` satisfying the predicate are %d"
                                    % (scn, withh["sql"], len(got), " and exposes %s" % sorted(set(extra_cols)) if extra_cols else "", base["sql"], len(want)))
                    elif want and len(want) < len(base["raw"]):
                        st["nontrivial"] += 1
                elif lw["kind"] == "from":
                    inner, outer = res.get(lid + "inner"), res.get(lid + "outer")
                    if not inner or not outer or "err" in inner or "err" in outer:
                        continue
                    st["from"] += 1
                    why = regroup_ok(inner["raw"], outer["raw"], lw["by"], lw["P"], ["f", "g"])
                    if why:
                        rp = common.save_replay(pid, scn + "-" + lid, {"scenario": by_id[scn], "kind": "from-law", "inner": inner, "outer": outer, "law": lw})
                        V.violation(rp, "%s: `%s` is not the regrouping of its materialised sub-query: %s" % (scn, outer["sql"], why))
                    elif outer["raw"]:
                        st["nontrivial"] += 1

    def extra_cov(scenarios, traces):
        return {"where_queries_bound_to_spec": st["where"], "having_laws": st["having"], "in_subquery_laws": st["in"],
                "in_subquery_laws_skipped_empty": st["in_skipped"], "from_subquery_laws": st["from"],
                "laws_with_rows_on_both_sides": st["nontrivial"]}

    return store_check(args, pid, mc_jobs, gen, ["AtMostOnce"], True,
                       ["WHERE: the rows of SELECT ... WHERE p are bound to the specification's view restricted to the keys whose "
                        "dimensions satisfy p (predicate truth computed by the generator, independently of goexpr)",
                        "HAVING / IN-sub-query / FROM-sub-query: differential laws between two executions on the same quiescent data",
                        "predicates over the dimensions the table groups by; nil and missing dimensions, mixed types included"]
                       + BASE_ASSUMPTIONS[:1], end_oracle=False, extra_cov=extra_cov, post_judge=post_judge,
                       observation_lines=("QueryResult", "GQueryResult"))


def tables_from_defs(sc):
    """Rebuild Table objects of a stored scenario (replay)."""
    out = []
    for d in sc["tables"]:
        cand = [t for t in MC_TABLES + C03_TABLES + C01_TABLES + C14_TABLES + C14_TABLES2 + C15_TABLES + C18_TABLES + Q_TABLES + C08_TABLES if t.define() == d]
        if cand:
            out.append(cand[0])
        else:
            raise InfraError("replay: unknown table definition %s" % d)
    return out


CHECKS = {"C08": check_C08, "C06": check_C06, "C07": check_C07, "C17": check_C17, "C04": check_C04, "C18": check_C18, "C15": check_C15, "C14": check_C14, "C01": check_C01, "C02": check_C02, "C03": check_C03}
