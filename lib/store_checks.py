"""Checks of the Store family (spec/Store.tla): C01 C02 C03 ..."""
import json, os, random, re, shutil, sys, time
from storelib import *
from tla import run_tlc, tla
import common
from common import Verdict, InfraError

# Deviations of the pinned code that the specification names (DESIGN.md 3):
CODE_FLAGS = {"ArrayDup": True,       # D8: additional array values inserted twice
              "SplitApply": False}    # D6 (fixed): values of one entry were applied in separate critical sections


def flags_cfg(flags, trunc_every=10):
    return "  ArrayDup = %s\n  SplitApply = %s\n  TruncEvery = %d\n" % (
        tla(flags["ArrayDup"]), tla(flags["SplitApply"]), trunc_every)


# ---------------------------------------------------------------- generation

def random_menu(rng, n, ids_from=1, arrays=True, nonnumeric=True, ticks=(1, 8)):
    menu = []
    for i in range(n):
        pid = ids_from + i
        k = rng.choice(sorted(KEYS))
        r = rng.random()
        if nonnumeric and r < 0.08:
            vs, nn = (), 1
        elif arrays and r < 0.35:
            vs, nn = rng.choice([("w",), ("w", "x")]), 2
        else:
            vs, nn = rng.choice([("w",), ("w", "x"), ("x",), ("w",)]), 1
        menu.append(point(pid, rng.randint(*ticks), k, vs=vs, n=nn))
    return menu


def sim_scripts(tables, menu, flags, num, depth, seed, workdir, max_flushes=4, max_crashes=2,
                allow_close=True, trunc_every=10):
    """Behaviours of SimStore as lists of action records (TLC -simulate)."""
    mod, cfg = constants_module("SimRun", "SimStore", tables,
                                {"c_Menu": [tla_point(p) for p in menu], "c_Sorted": {False}})
    cfg = ("SPECIFICATION SimSpec\n" + cfg + flags_cfg(flags, trunc_every) +
           "  MaxFlushes = %d\n  MaxCrashes = %d\n  Depth = %d\n  AllowClose = %s\n"
           "INVARIANT Emit\nCHECK_DEADLOCK FALSE\n" % (max_flushes, max_crashes, depth, tla(allow_close)))
    r = run_tlc(mod, "SimRun", cfg, workdir, workers=1, timeout=600,
                extra=["-simulate", "num=%d" % num, "-depth", str(depth + 1), "-seed", str(seed)])
    hists = []
    for m in re.finditer(r'<<"ZVSIM", "(.*)">>', r.out):
        hists.append(json.loads(json.loads('"' + m.group(1) + '"')))
    if not hists:
        raise InfraError("TLC produced no behaviours:\n" + r.out[-3000:])
    return hists


def probes(tables, only=None):
    out = []
    for t in tables:
        if only and t.name != only:
            continue
        out.append({"a": "Query", "t": t.name, "mem": True})
        out.append({"a": "Query", "t": t.name, "mem": False})
    return out


def scenario_from_hist(scn, tables, menu, hist, opts=None, probe_every=True, int_vals=False):
    cmds = []
    up = False
    for h in hist:
        a = h["a"]
        if a == "Insert":
            cmds.append(render_insert(menu[h["i"] - 1], int_vals=int_vals))
        elif a == "Probe":
            cmds += probes(tables)
        elif a == "Start":
            cmds.append({"a": "Start"})
            up = True
            cmds += probes(tables)
        elif a in ("Crash", "Close"):
            cmds.append({"a": a})
            up = False
        else:
            c = {"a": a, "t": h["t"]}
            cmds.append(c)
            if probe_every:
                cmds += probes(tables, only=h["t"])
    if not up:
        cmds.append({"a": "Start"})
    cmds.append({"a": "Settle"})
    cmds += probes(tables)
    o = {"tickMs": 1000, "stream": STREAM}
    if opts:
        o.update(opts)
    return {"scn": scn, "opts": o, "tables": [t.define() for t in tables], "cmds": cmds,
            "menu": menu}


# ---------------------------------------------------------------- validation

ALL_INVS = ["ExactlyOnce", "MemLockStep", "DiskLockStep", "AtMostOnce", "OffsetsOrdered"]


def validate(tables, traces, flags, invs, workdir, trunc_every=10, name="TraceRun"):
    """Validates the traces (dict scn -> lines) against TraceStore. Returns
    (fails, viols, tlc result): fails = {scn: line record that could not be
    taken}, viols = list of violation records."""
    os.makedirs(workdir, exist_ok=True)
    path = os.path.join(workdir, name + ".ndjson")
    index = []
    with open(path, "w") as f:
        for scn, lines in traces.items():
            for rec in lines:
                if rec.get("a") in ("HarnessError", "DBPanic"):
                    continue
                f.write(json.dumps(rec) + "\n")
                index.append((scn, rec))
    mod, cfg = constants_module(name, "TraceStore", tables)
    cfg = ("SPECIFICATION TraceSpec\n" + cfg + flags_cfg(flags, trunc_every) +
           "  CheckInvs = %s\nINVARIANT Done\nCHECK_DEADLOCK FALSE\n" % tla(set(invs)))
    r = run_tlc(mod, name, cfg, workdir, workers=1, timeout=1800, env={"ZV_TRACE": path},
                java_opts="-Xss64m")
    m = re.search(r'<<"ZVTRACE", "(.*)">>', r.out)
    if not m:
        open(os.path.join(common.SCRATCH_ROOT, "last_tlc_failure.out"), "w").write(r.out)
        raise InfraError("trace validation did not finish (output in .scratch/last_tlc_failure.out):\n" + r.out[-1500:])
    rep = json.loads(json.loads('"' + m.group(1) + '"'))
    fails = {}
    for fl in rep["fails"]:
        scn, rec = index[fl["at"] - 1]
        fails[fl["scn"]] = {"line": fl["at"], "rec": rec}
    return fails, rep["viol"], r, len(index)


# ---------------------------------------------------------------- oracle

def expected_cells(table, menu, n_entries, array_dup):
    """Reference contents of a table (static schema, no expiry) after the
    first n_entries of the menu, as {(key, period, field, id): count}; the
    _points field is keyed with id 0.  Written from the statement of C01."""
    out = {}
    pred = WHERES[table.where][1]
    for p in menu[:n_entries]:
        d = KEYS[p["k"]]
        if not pred(d) or not p["vs"]:
            continue
        key = table.proj(p["k"])
        per = -(-p["ts"] // table.res) * table.res
        alen = p["n"] if "w" in p["vs"] else 1
        extras = (2 * (alen - 1)) if array_dup else (alen - 1)
        for f in table.flds():
            src = SRC[f]
            if src == "_point":
                c, pid = 1 + extras, 0
            else:
                c = (1 if src in p["vs"] else 0) + (extras if src == "w" else 0)
                pid = p["id"]
            if c:
                out[(key, per, f, pid)] = out.get((key, per, f, pid), 0) + c
    return out


def rows_to_cells(rows):
    out = {}
    for r in rows:
        out[(r[0], r[1], r[2], r[3])] = r[4]
    return out


def final_views(lines):
    """Last memstore-inclusive and disk-only result per table in a trace."""
    mem, disk = {}, {}
    for rec in lines:
        if rec.get("a") == "QueryResult":
            (mem if rec["mem"] else disk)[rec["t"]] = rec
    return mem, disk


def diff_cells(obs, exp):
    keys = set(obs) | set(exp)
    return {k: (obs.get(k, 0), exp.get(k, 0)) for k in keys if obs.get(k, 0) != exp.get(k, 0)}


# ---------------------------------------------------------------- model checking

MC_TABLES = [Table("a", fields=("f",), where="all", group=("a",), res=2),
             Table("b", fields=("f", "g"), where="by", group=(), res=1)]
MC_MENU = [point(1, 1, 1), point(2, 2, 3, vs=("w", "x"), n=2), point(3, 3, 4, n=2)]


def model_check(module, tables, menu, flags, invs, props, workdir, max_flushes=3, max_crashes=2,
                trunc_every=2, workers=None, timeout=3000, name="MCRun", extra_cfg="", sorted_set=(False,)):
    extra = {"c_Menu": [tla_point(p) for p in menu], "c_Sorted": set(sorted_set)}
    mod, cfg = constants_module(name, module, tables, extra)
    spec = "MCSpec" if module == "MCStore" else "SimSpec"
    cfg = ("SPECIFICATION %s\n" % spec + cfg + flags_cfg(flags, trunc_every) +
           "  MaxFlushes = %d\n  MaxCrashes = %d\n" % (max_flushes, max_crashes) + extra_cfg +
           "".join("INVARIANT %s\n" % i for i in invs) + "".join("PROPERTY %s\n" % p for p in props) +
           "CHECK_DEADLOCK FALSE\n")
    return run_tlc(mod, name, cfg, workdir, workers=workers or common.NPROC, timeout=timeout)


def counterexample_script(tables, menu, flags, inv, workdir, **kw):
    """Shortest behaviour of SimStore violating inv, as an action list."""
    extra_cfg = "  Depth = 1000\n  AllowClose = FALSE\nVIEW SimView\n"
    r = model_check("SimStoreCex", tables, menu, flags, ["Cex_" + inv], [], workdir,
                    name="CexRun", extra_cfg=extra_cfg, **kw)
    m = re.search(r'<<"ZVCEX", "(.*)">>', r.out)
    if not m:
        return None
    return json.loads(json.loads('"' + m.group(1) + '"'))


# ---------------------------------------------------------------- replay + judge

def run_and_judge(pid, V, bins, scenarios, tables_of, flags, invs, work, array_dup_oracle,
                  classify=None, label="replay"):
    """Runs scenarios on the real code, validates the traces with TLC and
    applies the end-state oracle.  tables_of(scn) -> list of Table.
    Returns statistics."""
    t_run = time.time()
    traces = common.run_shards(bins["zvstore"], [{k: v for k, v in s.items() if k != "menu"} for s in scenarios],
                               os.path.join(work, label))
    by_id = {s["scn"]: s for s in scenarios}
    print("[%s] ran %d scenarios in %.1fs" % (pid, len(scenarios), time.time() - t_run), flush=True)
    stats = {"scenarios": len(scenarios), "lines": 0, "accepted": 0, "diverged": 0, "harness_errors": 0,
             "crashes": 0, "flushes": 0, "nontrivial": 0}
    # group by table configuration for TLC
    groups = {}
    for scn, lines in traces.items():
        key = json.dumps([t.define() for t in tables_of(by_id[scn])], sort_keys=True)
        groups.setdefault(key, {})[scn] = lines
    fails, viols = {}, []
    for gi, (key, tr) in enumerate(groups.items()):
        any_scn = next(iter(tr))
        f, v, r, n = validate(tables_of(by_id[any_scn]), tr, flags, invs, os.path.join(work, "%s-tlc%d" % (label, gi)))
        print("[%s] TLC validated %d lines in %.1fs" % (pid, n, r.wall), flush=True)
        fails.update(f)
        viols += v
        stats["lines"] += n
    stats["tlc_viol"] = len(viols)
    for scn, lines in traces.items():
        sc = by_id[scn]
        tables = tables_of(sc)
        acts = [l["a"] for l in lines]
        herr = [l for l in lines if l["a"] in ("HarnessError", "DBPanic")]
        ncr = acts.count("Crash") + acts.count("Close")
        nfl = acts.count("FlushSwap")
        stats["crashes"] += ncr
        stats["flushes"] += nfl
        if ncr and nfl:
            stats["nontrivial"] += 1
        if herr:
            stats["harness_errors"] += 1
        if scn in fails:
            fl = fails[scn]
            if fl["rec"]["a"] == "QueryResult":
                rp = common.save_replay(pid, scn, {"scenario": sc, "rejected_at": fl, "kind": "observation"})
                V.violation(rp, "%s: rows returned by %s (mem=%s) are not the rows the specification allows at trace line %d"
                            % (scn, fl["rec"]["t"], fl["rec"]["mem"], fl["line"]))
            else:
                stats["diverged"] += 1
                V.notes.append("%s: trace not a behaviour of the specification at %s (structural, see end-state oracle)"
                               % (scn, json.dumps(fl["rec"])[:200]))
        else:
            stats["accepted"] += 1
        # end-state oracle, independent of trace acceptance
        if herr:
            V.notes.append("%s: harness error %s" % (scn, json.dumps(herr[0])[:300]))
            continue
        mem, disk = final_views(lines)
        n_entries = sum(1 for c in sc["cmds"] if c["a"] == "Insert")
        for t in tables:
            if t.name not in mem:
                continue
            obs = rows_to_cells(mem[t.name]["rows"])
            exp = expected_cells(t, sc["menu"], n_entries, array_dup_oracle)
            d = diff_cells(obs, exp)
            if d:
                verdict = classify(sc, t, d) if classify else None
                if verdict:
                    V.known_finding(verdict)
                else:
                    rp = common.save_replay(pid, scn, {"scenario": sc, "table": t.name, "kind": "end-state",
                                                       "diff": [[list(k), v] for k, v in sorted(d.items(), key=repr)]})
                    V.violation(rp, "%s: table %s after catching up differs from the reference on %d cell(s), e.g. %s observed/expected %s"
                                % (scn, t.name, len(d), list(sorted(d, key=repr)[0]), d[sorted(d, key=repr)[0]]))
    for v in viols:
        sc = by_id.get(v["scn"])
        V.notes.append("TLC: %s false after line %d of %s on %s" % (v["inv"], v["at"], v["scn"], v["bad"][:4]))
    return stats, traces, fails, viols


def sample_of(sc, n=14):
    return {"scn": sc["scn"], "actions": [c["a"] + (":" + c["t"] if "t" in c and c["t"] else "") for c in sc["cmds"]
                                           if c["a"] != "Query"][:n * 3]}


# ---------------------------------------------------------------- C02

def check_C02(args):
    t0 = time.time()
    pid = "C02"
    V = Verdict(pid)
    quick = common.tier() == "quick"
    rng = random.Random(common.seed() * 7919 + 2)
    bins = common.build()
    work = common.scratch(pid)
    flags = dict(CODE_FLAGS)
    cov = {}
    try:
        if args.replay:
            rp = json.load(open(args.replay))
            sc = rp["scenario"]
            tabs = tables_from_defs(sc)
            stats, *_ = run_and_judge(pid, V, bins, [sc], lambda s: tabs, flags, ALL_INVS, work, flags["ArrayDup"])
            print(json.dumps(stats))
            return V.finish()
        # (M) exhaustive exploration of the protocol
        menus = [MC_MENU] if quick else [MC_MENU,
                 [point(1, 1, 1, n=2), point(2, 2, 3, vs=("x",)), point(3, 3, 4, n=1), point(4, 2, 2, vs=())]]
        states = trans = 0
        hyps = []
        for mi, menu in enumerate(menus):
            r = model_check("MCStore", MC_TABLES, menu, flags, ALL_INVS, ["FlushInvisible", "DiskEqualsViewAfterSwap"],
                            os.path.join(work, "mc%d" % mi), max_flushes=3 if quick else 4, max_crashes=2,
                            timeout=600 if quick else 3000)
            states += r.distinct
            trans += r.generated
            if r.violated:
                hyps.append((menu, r.violated))
            elif not r.ok:
                raise InfraError("model checking did not finish:\n" + r.out[-3000:])
        cov["states"], cov["transitions"] = states, trans
        print("[%s] model checking done at %.1fs: %d states" % (pid, time.time() - t0, states), flush=True)
        scenarios = []
        cex_ids = set()
        # a counterexample of the model is a hypothesis: replay it on the real code
        for hi, (menu, violated) in enumerate(hyps):
            for inv in violated[:1]:
                for probe_inv in ("ExactlyOnce",):
                    h = counterexample_script(MC_TABLES, menu, flags, probe_inv, os.path.join(work, "cex%d" % hi),
                                              max_flushes=3, max_crashes=2)
                    if h:
                        sc = scenario_from_hist("%s-cex%d" % (pid, hi), MC_TABLES, menu, h)
                        scenarios.append(sc)
                        cex_ids.add(sc["scn"])
                        V.notes.append("model: %s violated for the code-faithful constants; counterexample %s replayed as %s"
                                       % (inv, [x["a"] for x in h], sc["scn"]))
        # (R) simulated behaviours replayed on the real code
        n_menus = 6 if quick else 60
        per = 25 if quick else 120
        for mi in range(n_menus):
            menu = random_menu(rng, rng.randint(3, 6))
            tabs = MC_TABLES
            hs = sim_scripts(tabs, menu, flags, per, rng.choice([24, 32, 40]), rng.randint(1, 10 ** 6),
                             os.path.join(work, "sim%d" % mi), max_flushes=5, max_crashes=3)
            for j, h in enumerate(hs):
                scenarios.append(scenario_from_hist("%s-%d-%d" % (pid, mi, j), tabs, menu, h,
                                                    int_vals=rng.random() < 0.3))
        print("[%s] %d scenarios generated at %.1fs" % (pid, len(scenarios), time.time() - t0), flush=True)
        stats, traces, fails, viols = run_and_judge(pid, V, bins, scenarios, lambda s: MC_TABLES, flags, ALL_INVS,
                                                   work, flags["ArrayDup"])
        cov.update({"traces_validated_against_impl": stats["accepted"],
                    "samples": [sample_of(s) for s in scenarios[:3]],
                    "replayed_behaviours": stats["scenarios"], "trace_lines": stats["lines"],
                    "crash_or_close_steps": stats["crashes"], "completed_flushes": stats["flushes"],
                    "behaviours_with_flush_and_crash": stats["nontrivial"],
                    "unexplained_traces": stats["diverged"], "harness_errors": stats["harness_errors"],
                    "model_counterexamples_replayed": len(cex_ids)})
        rc = V.finish()
        common.write_evidence(pid, "model_checking", cov,
                              ["crash = loss of volatile state at a hook point (process-kill model; page cache survives)",
                               "the harness maps WAL offsets to entries by entry content",
                               "schema static, all points inside the retention window"],
                              time.time() - t0, len(V.violations))
        if stats["harness_errors"] > len(scenarios) // 2:
            print("harness errors in %d of %d scenarios" % (stats["harness_errors"], len(scenarios)))
            return 2
        return rc
    finally:
        shutil.rmtree(work, ignore_errors=True)


def tables_from_defs(sc):
    """Rebuild Table objects of a stored scenario (replay)."""
    out = []
    for d in sc["tables"]:
        cand = [t for t in MC_TABLES if t.define() == d]
        if cand:
            out.append(cand[0])
        else:
            raise InfraError("replay: unknown table definition %s" % d)
    return out


CHECKS = {"C02": check_C02}
