"""Trace validation of the repository's own tests against spec/Pipeline.tla
(TracePipe.tla).  The tests are run with `go test -overlay`: the overlay adds
a recording hook (harness/overlay/rec.go.in, in place of verif_on.go) and a
TestMain to the packages, without touching /repo.  Used as a part of C02
(TestSingleDB, TestStorage) and C12 (TestServers)."""
import json, os, re, shutil, subprocess, time
import common
from common import InfraError
from tla import run_tlc, tla

OV = os.path.join(common.VERIF, "harness", "overlay")


def make_overlay(workdir):
    os.makedirs(workdir, exist_ok=True)
    rec = open(os.path.join(OV, "rec.go.in")).read()
    main = open(os.path.join(OV, "main_test.go.in")).read()
    files = {
        "rec.go": rec,
        "z_main_test.go": main.replace("package PKG", "package zenodb").replace("\tZIMPORT\n", "").replace("ZPFX ", ""),
        "s_main_test.go": main.replace("package PKG", "package server").replace("ZIMPORT", '"github.com/getlantern/zenodb"').replace("ZPFX ", "zenodb."),
    }
    for n, c in files.items():
        open(os.path.join(workdir, n), "w").write(c)
    repo = common.REPO
    ov = {"Replace": {os.path.join(repo, "verif_on.go"): "",
                      os.path.join(repo, "zz_verif_rec.go"): os.path.join(workdir, "rec.go"),
                      os.path.join(repo, "zz_verif_main_test.go"): os.path.join(workdir, "z_main_test.go"),
                      os.path.join(repo, "server", "zz_verif_main_test.go"): os.path.join(workdir, "s_main_test.go")}}
    p = os.path.join(workdir, "overlay.json")
    json.dump(ov, open(p, "w"))
    return p


def record(pkg, run_re, workdir, timeout=900):
    """Runs the package's tests matching run_re with the recording overlay.
    Returns (events, test exit status, tail of the output)."""
    ovp = make_overlay(os.path.join(workdir, "ov"))
    out = os.path.join(workdir, "rec.ndjson")
    tmp = os.path.join(workdir, "tmp")
    os.makedirs(tmp, exist_ok=True)
    env = dict(os.environ, GOFLAGS="-mod=mod", GOPROXY="off", GOSUMDB="off", GOTOOLCHAIN="local", ZV_REC=out, TMPDIR=tmp)
    cmd = ["go", "test", "-vet=off", "-tags", "verif", "-overlay", ovp, "-run", run_re, "-count=1", "-timeout", "%ds" % timeout, pkg]
    try:
        p = subprocess.run(cmd, cwd=common.REPO, env=env, stdout=subprocess.PIPE, stderr=subprocess.STDOUT, text=True, timeout=timeout + 120)
        rc, txt = p.returncode, p.stdout
    except subprocess.TimeoutExpired as e:
        rc, txt = 124, (e.stdout or b"").decode("utf8", "replace") if isinstance(e.stdout, bytes) else (e.stdout or "")
    shutil.rmtree(tmp, ignore_errors=True)
    if "[build failed]" in txt or "[setup failed]" in txt:
        raise InfraError("the recording build of %s failed:\n%s" % (pkg, txt[-3000:]))
    evs = []
    if os.path.exists(out):
        for line in open(out):
            try:
                evs.append(json.loads(line))
            except ValueError:
                pass      # the last line of a process that died is cut short
    return evs, rc, txt[-1500:]


OTHER = {"rs.ready", "iter.begin", "iter.copied", "rs.fields.done"}


def to_trace(evs):
    """Lines for TracePipe: lives, chains, ranks."""
    evs = sorted(evs, key=lambda e: e["seq"])
    offsets = set()
    srcs = set()
    for e in evs:
        if "off" in e and tuple(e["off"]) != (0, 0):
            offsets.add(tuple(e["off"]))
        if "earliest" in e and tuple(e["earliest"]) != (0, 0):
            offsets.add(tuple(e["earliest"]))
        for s, f, p in e.get("offs", []):
            offsets.add((f, p))
            srcs.add(s)
        if "src" in e:
            srcs.add(e["src"])
    rank = {o: i + 1 for i, o in enumerate(sorted(offsets))}
    rk = lambda o: 0 if tuple(o) == (0, 0) else rank[tuple(o)]
    srcs = sorted(srcs) or [0]
    sname = lambda s: "s%d" % s
    last_life = {}       # (name, dir) -> life
    lines, tables = [], set()
    for e in evs:
        t = e.get("t", "")
        is_table = not t.startswith("@")
        name = t.split("#")[0]
        a = e["ev"]
        if a in OTHER:
            a = "other"
        full = {"a": a, "t": t, "prev": "", "src": sname(e.get("src", srcs[0])), "off": rk(e["off"]) if "off" in e else 0,
                "key": bool(e.get("key", False)), "kind": e.get("kind", 0),
                "offs": {sname(s): 0 for s in srcs}, "file": e.get("file", ""), "n": 0, "err": bool(e.get("err", False)),
                "fol": e.get("fol", ""), "inc": e.get("inc") or [], "crash": bool(e.get("killed_before", False)), "seq": e["seq"]}
        for s, f, p in e.get("offs", []):
            full["offs"][sname(s)] = rk((f, p))
        if isinstance(e.get("n"), int):
            full["n"] = e["n"]
        if isinstance(e.get("rows"), int):
            full["n"] = e["rows"]
        if is_table:
            tables.add(t)
        if a == "rs.open":
            key = (name, e.get("dir", ""))
            if key[1]:
                full["prev"] = last_life.get(key, "")
                last_life[key] = t
        lines.append(full)
    return lines, sorted(tables), [sname(s) for s in srcs]


def validate(lines, tables, srcs, workdir):
    os.makedirs(workdir, exist_ok=True)
    path = os.path.join(workdir, "pipe.ndjson")
    with open(path, "w") as f:
        for x in lines:
            f.write(json.dumps({k: v for k, v in x.items() if k != "seq"}) + "\n")
    mod = "---- MODULE PipeRun ----\nEXTENDS TracePipe\nc_Tables == %s\nc_Sources == %s\n====\n" % (tla(set(tables)), tla(set(srcs)))
    cfg = ("SPECIFICATION TraceSpec\nCONSTANTS\n  Tables <- c_Tables\n  Sources <- c_Sources\n"
           "INVARIANTS Done TDurableBehind TNoOverlap\nCHECK_DEADLOCK FALSE\n")
    r = run_tlc(mod, "PipeRun", cfg, workdir, workers=1, timeout=1800, env={"ZV_TRACE": path}, java_opts="-Xss64m -Xmx4g")
    m = re.search(r'<<"ZVTRACE", "(.*)">>', r.out)
    if not m:
        inv = re.search(r"Invariant (\w+) is violated", r.out)
        if inv:
            return {"invariant": inv.group(1), "fails": [], "lines": len(lines), "lives": 0, "out": r.out[-3000:]}
        open(os.path.join(common.SCRATCH_ROOT, "last_tlc_failure.out"), "w").write(r.out)
        raise InfraError("pipeline trace validation did not finish:\n" + r.out[-2000:])
    rep = json.loads(json.loads('"' + m.group(1) + '"'))
    rep["invariant"] = None
    return rep


def events_part(pid, V, evs, work, stats, label, what):
    """Validates hook events recorded by a harness process (zv.Recorder)."""
    t0 = time.time()
    lines, tables, srcs = to_trace(evs)
    rep = validate(lines, tables, srcs, os.path.join(work, "tv-" + label))
    stats["pipeline_trace_events_" + label] = len(lines)
    stats["pipeline_trace_instances_" + label] = len(tables)
    stats["pipeline_trace_restarts_after_kill_" + label] = sum(1 for x in lines if x["a"] == "rs.open" and x["crash"] and x["prev"])
    stats["pipeline_trace_rejected_" + label] = len(rep["fails"])
    print("[%s] %s: %d events of %d table instances (%d restarts after a kill) validated against spec/TracePipe.tla in %.1fs, %d rejected"
          % (pid, what, len(lines), len(tables), stats["pipeline_trace_restarts_after_kill_" + label], time.time() - t0, len(rep["fails"])), flush=True)
    report(pid, V, rep, lines, label, what)
    return rep


def report(pid, V, rep, lines, label, what):
    if rep["invariant"]:
        rp = common.save_replay(pid, "pipe-%s-invariant" % label, {"kind": "pipeline-trace", "what": what, "invariant": rep["invariant"], "tlc": rep["out"]})
        V.violation(rp, "%s reaches a state in which %s of spec/TracePipe.tla does not hold" % (what, rep["invariant"]))
    for fl in sorted(rep["fails"], key=lambda x: x["at"])[:6]:
        ev = lines[fl["at"] - 1]
        before = [x for x in lines[:fl["at"] - 1] if x["t"] in (ev["t"], ev.get("prev"))][-40:]
        rp = common.save_replay(pid, "pipe-%s-%d" % (label, fl["at"]), {"kind": "pipeline-trace", "what": what, "event": ev, "spec_state": fl["st"],
                                                                          "events_of_the_instance_before": before})
        V.violation(rp, "%s: event %s of %s (%s) is not a step of spec/Pipeline.tla in the state the instance is in: %s"
                    % (what, ev["a"], ev["t"], json.dumps({k: ev[k] for k in ("src", "off", "key", "kind", "offs", "file", "n", "prev", "crash") if ev.get(k)})[:300],
                       json.dumps(fl["st"])[:500]))


def repo_tests_part(pid, V, pkg, run_re, work, stats, label):
    """Records the tests, validates the trace; a rejected event is a violation
    (the replay holds the event, the specification's state there and the life's
    events before it)."""
    t0 = time.time()
    # (a test run that hangs is cut off: whatever it recorded until then is a prefix)
    # the server package's cluster test is known to die during start-up now and then (a follower's
    # follow function runs before the server has its database): such a run records next to
    # nothing and is repeated; its verdict is not this check's business
    for attempt in range(3):
        evs, rc, tail = record(pkg, run_re, os.path.join(work, "rec-%s-%d" % (label, attempt)), timeout=420 if common.tier() == "quick" else 1200)
        if len(evs) >= 100:
            break
    stats["repo_test_exit_" + label] = rc
    stats["repo_test_events_" + label] = len(evs)
    if not evs:
        V.notes.append("%s %s recorded no hook events in 3 runs (exit %d): this part was not exercised: %s" % (pkg, run_re, rc, tail[-300:].replace("\n", " | ")))
        return None
    cap = 25000 if common.tier() == "quick" else 200000
    if len(evs) > cap:
        # (acceptance is prefix-closed: a prefix of the execution is an execution)
        evs = sorted(evs, key=lambda e: e["seq"])[:cap]
    lines, tables, srcs = to_trace(evs)
    rep = validate(lines, tables, srcs, os.path.join(work, "tv-" + label))
    stats["repo_test_lives_" + label] = rep.get("lives", 0)
    stats["repo_test_rejected_" + label] = len(rep["fails"])
    print("[%s] %s %s: exit %d, %d events of %d table instances validated against spec/TracePipe.tla in %.1fs, %d rejected"
          % (pid, pkg, run_re, rc, len(lines), len(tables), time.time() - t0, len(rep["fails"])), flush=True)
    report(pid, V, rep, lines, "repotest-" + label, "%s %s" % (pkg, run_re))
    return rep
