"""Generation of SQL queries over the Store-family tables from an abstract
query grammar (select list, time range, grouping, period, stride, shift,
crosstab, sub-queries, having, order, limit)."""
import random


def rel(s):
    return "'-%ds'" % s if s else "'0s'"


def abs_ts(tick):
    return "'2020-01-01T00:00:%02dZ'" % tick


def gen_query(rng, tables, now_hint=5):
    """One random query (SQL text) against one of the tables."""
    t = rng.choice(tables)
    dec = [f for f in t.fields if f in ("f", "g", "h", "i")]
    f = rng.choice(dec)
    sel_opts = ["*", f, ", ".join(dec), "%s, _points" % f,
                "%s + %s AS s2" % (f, rng.choice(dec)), "%s / _points AS ratio" % f,
                "SHIFT(%s, '-%ds') AS sh, %s" % (f, t.res * rng.randint(1, 2), f),
                "SUM(%s) AS total" % f]
    sel = rng.choice(sel_opts)
    frm = t.name
    if rng.random() < 0.2:
        frm = "(SELECT %s FROM %s GROUP BY %s period(%ds))" % (", ".join(dec), t.name,
              "".join(g + ", " for g in t.group[:rng.randint(0, len(t.group))]), t.res)
        sel = rng.choice([f, ", ".join(dec), "*"])
    q = "SELECT %s FROM %s" % (sel, frm)
    r = rng.random()
    if r < 0.45:
        hi = rng.randint(0, now_hint)
        lo = rng.randint(hi, now_hint + 2)
        q += " ASOF %s UNTIL %s" % (rel(lo), rel(hi))
    elif r < 0.6:
        q += " UNTIL %s" % rel(rng.randint(0, now_hint))
    elif r < 0.75:
        a = rng.randint(0, now_hint)
        q += " ASOF %s UNTIL %s" % (abs_ts(a), abs_ts(rng.randint(a, now_hint + 2)))
    if rng.random() < 0.3 and t.group:
        d = rng.choice(["a", "b"])
        q += " WHERE " + rng.choice(["a = 1", "b = 'y'", "a IN (SELECT a FROM %s)" % rng.choice(tables).name,
                                     "b <> 'x'", "a = 1 OR b = 'x'"])
    gb = []
    r = rng.random()
    if r < 0.5:
        gb += [g for g in t.group if rng.random() < 0.5]
    elif r < 0.6 and "b" in t.group:
        gb += ["CROSSTAB(b)"]
    if rng.random() < 0.5:
        gb.append("period(%ds)" % (t.res * rng.choice([1, 2, 3, 5])))
        if rng.random() < 0.2:
            gb.append("STRIDE(%ds)" % (t.res * rng.choice([4, 6])))
    if gb:
        q += " GROUP BY " + ", ".join(gb)
    if rng.random() < 0.2 and "*" not in sel and "AS" not in sel and "," not in sel:
        q += " HAVING %s > %d" % (sel, rng.choice([0, 4, 100]))
    if rng.random() < 0.25:
        q += " ORDER BY _time" + rng.choice(["", " DESC"])
    if rng.random() < 0.25:
        q += " LIMIT %d" % rng.randint(1, 3)
    return q
