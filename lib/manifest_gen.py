#!/usr/bin/env python3
"""Regenerates MANIFEST.json from the table below (kept next to the checks so
that the manifest never drifts from what exists)."""
import json, os, subprocess
VERIF = os.path.dirname(os.path.dirname(os.path.abspath(__file__)))

CHECKS = {
 "C01": dict(level="model_checking", design="5 C01",
   text="spec/Store.tla defines what every table fed by a stream must contain (bags of point ids per group key, period and field; ViewCorrect) and TLC checks it for all interleavings of ingest and flush steps of a small instance; TLC-simulated behaviours over several tables and a view with mixed-type, missing, nil and extra dimensions, missing/extra/non-numeric values, duplicates, out-of-order and period-boundary timestamps are replayed on the real database, every query result of every step is bound to the specification's view by trace validation, and the values of an aggregate catalogue (SUM COUNT MIN MAX AVG WAVG + / * IF BOUNDED) are compared with the definitions over the points of each cell.",
   note="Bounds: <= 10 points, 6 tables incl. one view per behaviour. Values of the aggregate catalogue are small integers (exact floats). Known finding D8 (array values) is listed in known_findings.json.",
   technique="TLA+ model checking (TLC) + replay of TLC behaviours into the real code + trace validation"),
 "C03": dict(level="model_checking", design="5 C03",
   text="Action properties of spec/Store.tla (no flush, offset-file or old-file step changes the view; disk view = view right after the swap) are checked by TLC for every interleaving incl. sorted and truncating flushes; flush-heavy simulated behaviours (forced, sorted when a memory cap is set, the every-10th non-raw flush, clean restarts, queries naming field subsets) are replayed on the real database and every query result before, during and after every flush step is bound to the specification's view by trace validation.",
   note="Timer-driven flushes are not scheduled by the replay (forced flushes only); PERCENTILE and shifted fields are not in this check's schema.",
   technique="TLA+ model checking (TLC) + replay of TLC behaviours into the real code + trace validation"),
 "C02": dict(level="model_checking", design="5 C02",
   text="TLC explores every interleaving of ingest, flush, offset-file and crash/recovery steps of spec/Store.tla for small constants (invariants ExactlyOnce, AtMostOnce, MemLockStep, DiskLockStep, OffsetsOrdered); TLC-simulated behaviours with crash images at every instrumented step are replayed on the real database through scheduler gates, every recorded trace is validated against the specification with the same predicates evaluated at every step, and the caught-up end state is compared with the reference bag of point ids. Asynchronous part: a child process ingesting with 1-3 ms timer flushes is killed with SIGKILL at random instants, three rounds per directory; every acknowledged point must then be in every table exactly once, a point in flight at most once. Offsets part: spec/Pipeline.tla (the pipeline at the level of stream offsets, any number of sources; invariants DurableBehind, Recoverable, Visible) is model checked, and the hook events of the repository's own TestSingleDB / TestStorage, recorded through `go test -overlay`, are validated against it (spec/TracePipe.tla).",
   note="Crash = loss of all volatile state at a hook point, or SIGKILL of a child process at a random instant (process-kill model: the page cache survives; fsync omissions are invisible). Bounds: <= 6 WAL entries, <= 5 flushes, <= 3 crash/restart rounds per behaviour. Trusted: TLC, the harness's decoding of query rows into bags.",
   technique="TLA+ model checking (TLC) + replay of TLC behaviours into the real code + trace validation (own scenarios and the repository's own tests) + asynchronous SIGKILL of a child process"),
}

CHECKS["C14"] = dict(level="model_checking", design="5 C14",
   text="spec/Store.tla models the database clock, the expiry decision at ingest, truncation by re-encoding flushes and raw pass-through; TLC checks NeverDropLive, NeverStoreExpired and NoExpiredInTruncatedFile for every interleaving of a small instance with retention 3-4 ticks; aging histories with late and out-of-order points, >= 10 flushes per table (the truncating one included), crashes and clean restarts are replayed on the real database with a virtual clock and every stored/skipped decision, every disk-only result (exact) and every memstore-inclusive and windowed result (exact on live periods, subset on expired ones) is bound to the specification by trace validation.",
   note="Virtual clock only (the clock is the newest accepted timestamp since the last open). Retention/resolution ratios 1..5. The 10-second old-file remover is not exercised.",
   technique="TLA+ model checking (TLC) + replay of TLC behaviours into the real code + trace validation")
CHECKS["C15"] = dict(level="model_checking", design="5 C15",
   text="spec/Store.tla models Alter as the code performs it (table.fields first, then the row store takes the list and force-flushes a non-empty memstore with the new output fields; file columns are mapped by field identity); TLC checks AlterKeepsRetained, AddedStartEmpty and FlushInvisible over every interleaving of a small instance with permutations, insertions, deletions and WHERE changes; histories interleaving inserts, flush steps, crashes, clean restarts and schema applications (incl. a wide PERCENTILE field and MAX/AVG fields to shift byte layouts) are replayed on the real database and every query result (all fields and field subsets, with and without memstore) is bound to the specification by trace validation.",
   note="A removed field is never re-added in one behaviour (its old column may legitimately still be on disk). Tables never hold two fields with the same expression text (see DESIGN.md, observation O2).",
   technique="TLA+ model checking (TLC) + replay of TLC behaviours into the real code + trace validation")

CHECKS["C18"] = dict(level="model_checking", design="5 C18",
   text="In spec/Store.tla a scan returns the view captured at its start (rowStore.iterate under the read lock); the real database is driven with scans held after their j-th row while further inserts, row-store applies and flush steps are pushed through the scheduler gates (TLC-simulated interleavings plus directed placements into delivered, undelivered and new rows), and the held scan's result is bound by trace validation to the view the specification captured at its start.",
   note="The scan is held by blocking its row callback after flat row j = 1..4; inserts during the scan are confirmed applied (rs.apply) before the scan is released. A free-running part (zvkill -mode free) runs scans concurrently with inserts and 1-3 ms timer flushes: every result must be exactly the content of a prefix of the stream; the hook events of those processes are validated against spec/TracePipe.tla (every scan takes the file store installed at that moment, between complete flush steps).",
   technique="TLA+ trace validation (TLC) of gate-scheduled executions of the real code + TLC-simulated interleavings")

CHECKS["C04"] = dict(level="model_checking", design="5 C04",
   text="Every query action of the specification (scan start, result, any other query) leaves all variables of spec/Store.tla unchanged; the binding decides the property: generated queries (select lists with derived and shifted fields, relative and absolute ASOF/UNTIL incl. ranges ending before the newest stored period, grouping, period multiples, stride, crosstab, FROM- and IN-sub-queries, having, order, limit, with and without memstore) are run between the steps of TLC-simulated ingest/flush/crash behaviours on the real database, and the probes before and after each of them and after the next flush are bound by trace validation to the specification's (unchanged) view; the caught-up end state is compared with the reference bag.",
   note="A modification is observed through SELECT * probes (every field, period and key, memstore-inclusive and disk-only). The results of the generated queries themselves are not judged here (C06-C09).",
   technique="TLA+ trace validation (TLC) of gate-scheduled executions with generated queries + TLC-simulated behaviours")

CHECKS["C17"] = dict(level="model_checking", design="5 C17",
   text="Sets of 2-8 queries of one table (field subsets, reversed field lists, limits, ordered limits, relative time ranges, period multiples, memstore-inclusive and disk-only, one member with an already expired deadline) are run one after the other and then all at once through the coalescer of the real database (60 ms coalesce interval; the number of scan starts observed by the iter.start hook confirms the coalescing) on TLC-checked storage states with data split between memstore and disk; each member's coalesced result must equal its solo result, and the plain probes among them are bound to spec/Store.tla's view by trace validation (one scan start, one snapshot, every member's result equal to that snapshot restricted to what it asked for).",
   note="Reference = solo execution of the same query on the same quiescent data. Unordered LIMIT: only the number of rows is compared. A member that fails alone (expired deadline) may fail in company; nobody else may.",
   technique="TLA+ trace validation (TLC) of coalesced executions of the real code + differential comparison with solo runs")

CHECKS["C05"] = dict(level="exploration", design="5 C05",
   text="spec/Data.tla gives every aggregate expression its value over a sequence of updates (exact rationals) and spec/Seq.tla the meaning of merging and restricting stored series; TLC evaluates them over enumerated expression trees x update sequences and over all pairs of series in a bounded window x every bound, and zvpure replays every case on the real expr and encoding packages: all updates into one state, every split in two and three parts merged in every order and association, operands byte-compared before and after; Merge and Truncate of real sequences compared period by period.",
   note="No state machine here: TLC is used as an evaluator that enumerates the case space and supplies expected values. PERCENTILE, LN/LOG and SHIFT leaves are checked for the merge laws only. Quick tier samples; thorough enumerates the stated windows completely.",
   technique="TLA+ definitions evaluated by TLC over an enumerated case space, replayed on the real code")
CHECKS["C09"] = dict(level="exploration", design="5 C09",
   text="spec/GenSort.tla defines the ordered result of ORDER BY (lexicographic over fields, a dimension incl. missing values, _time; ASC/DESC) as its sequence of key vectors and LIMIT/OFFSET as a slice of it; TLC enumerates row sequences, key lists and (limit, offset) pairs with the expected slices, zvpure feeds the rows to the real core.Sort / Offset / Limit operators and compares position by position, and checks that every returned row is an input row used once.",
   note="The operators are exercised directly (the planner composes exactly these for ORDER BY / LIMIT / OFFSET); row counts <= 3, key lists <= 2 (quick) or 3 (thorough).",
   technique="TLA+ definitions evaluated by TLC over an enumerated case space, replayed on the real code")

CHECKS["C06"] = dict(level="model_checking", design="5 C06",
   text="spec/TraceStore.tla (GroupedOK) states C06 over the specification's view of the table at the scan's start: the rows of one key are at least P apart, a row (k, T) holds exactly the native cells whose key projects to k and whose period end lies in (T-P, T], and every accepted point inside the window is covered by exactly one row; generated queries (dimension subsets incl. none and the table's own key, period multiples 1 2 3 5 7 incl. non-divisors of and periods larger than the window, field lists incl. a ratio f/_points) are run on the real database over gate-built storage states (memstore, disk, split) and their decoded rows are bound to that predicate by trace validation; the ratio column is recomputed from the returned components.",
   note="The predicate is stated relative to the timestamps of the rows actually returned, so it does not depend on how the code anchors coarse periods. Bag-of-ids decoding makes 'which points are in which output row' observable; AVG-like values are covered by the ratio field and by C01/C05.",
   technique="TLA+ trace validation (TLC) of generated grouped queries against the specification's view")
CHECKS["C07"] = dict(level="model_checking", design="5 C07",
   text="The same binding as C06 with time ranges: for every generated (asOf, until) pair (absolute and relative to the virtual clock, at tick granularity against tables of resolution 1 and 2 ticks, inside, outside and straddling the stored data, alone and combined with grouping and period multiples) every stored period lying wholly inside (asOf, until] must be returned with the bag the unbounded view has for it, no period lying wholly outside may be returned, and a period straddling a bound may go either way; without a range the window is (now - retention, now] with one resolution of slack at its lower end.",
   note="ASOF '0s' (a zero offset) is treated by the parser as 'not given' and is not generated. Queries that fail (asOf before the table's window) are not judged. Retention is a multiple of the resolution in the tables used (see DESIGN.md observation O3).",
   technique="TLA+ trace validation (TLC) of generated time-ranged queries against the specification's view")

CHECKS["C08"] = dict(level="model_checking", design="5 C08",
   text="WHERE over dimensions: the rows of generated queries with a predicate from a catalogue (=, <>, <, >, LIKE, IN, IS [NOT] NULL, AND/OR nested one level; over int, float, string, nil and missing dimensions) are bound by trace validation to the specification's view restricted to the keys whose dimensions satisfy the predicate (truth computed by the generator with goexpr's NULL ordering), also under grouping. HAVING, dim IN (sub-query) and FROM (sub-query) are decided by the differential laws the statement gives, between executions on the same gate-built quiescent data: HAVING result = rows of the HAVING-free query (its own select list) satisfying the predicate, helper column not exposed; IN (sub-query) = IN (literal list of the distinct values the sub-query returns on its own); outer-over-sub-query = regrouping of the materialised inner rows (C06's predicate applied to the inner rows).",
   note="The truth of an atomic predicate on NULL follows goexpr (nil differs from everything and sorts below every value). Rows whose own dimension is missing are left out of the IN law (a literal list cannot express NULL). Predicates use the dimensions the table groups by.",
   technique="TLA+ trace validation (TLC) for WHERE + differential laws over real executions for HAVING / sub-queries")

CHECKS["C12"] = dict(level="model_checking", design="5 C12",
   text="spec/Cluster.tla models the offset hand-over between leaders and followers (per-table per-source offsets, the last-delivered offset of a link, the leader's per-(follower, table) starting points and reader restart, follower-side de-duplication, flush, crash, restart from a directory snapshot, link cuts, leader restarts); TLC checks NoDuplicate, OnlyRouted, Persisted and Converged over every interleaving of a small instance; TLC-simulated and goal-directed fault sequences (skip-only flush / data / flush / crash orders, one table flushed and the other not, an older directory snapshot, a cut during a flush) are replayed on an in-process cluster of real databases (1-2 leaders, 2-3 partitions, 1-2 followers each) with harness-owned links and crash images, and at every exactly-detected quiescent point every follower table is compared with the reference bag: never more than was inserted, replicas of a partition equal, the partitions together exactly the inserted points.",
   note="An rpc part drops and re-establishes the real rpc follow streams of follower databases (zvwire) while points arrive. The hook events of the repository's own TestServers (real servers over rpc, restarts of leaders and followers that reuse their directories), recorded through `go test -overlay`, are validated against spec/TracePipe.tla: every table instance's pipeline, the resume point of every restarted table, and routing-free rules for the leader's inclusion of followers. The leader's bookkeeping of every execution (connect messages, starting points, entries with the followers included, deliveries) is validated by TLC against spec/TraceFollow.tla. The gRPC transport and server.followSource's back-off loop are replaced by harness-owned links that follow the same hand-over protocol (same Follow message reused, EarliestOffset = last delivered offset). No trace validation of the leader's internal pipeline in this round: the specification is bound through replayed behaviours and state comparison at quiescent points.",
   technique="TLA+ model checking (TLC) + replay of TLC fault sequences into an in-process cluster of the real code + trace validation of the leader's follower bookkeeping (TraceFollow.tla) and of the repository's own cluster test (TracePipe.tla)")
CHECKS["C10"] = dict(level="model_checking", design="5 C10",
   text="On the clusters of C12 (P in 1..5, 1-2 leaders, 1-2 followers per partition, tables partitioned by each dimension subset, by nothing, and by dimensions the table's own GROUP BY drops) every generated query (pushdown-eligible or not: grouping, period multiples, stride, shift, crosstab, time ranges, WHERE, HAVING, IN- and FROM-sub-queries, ORDER BY, LIMIT) is run through a leader and on a standalone database fed the same points; rows must be equal as multisets, in the same order where ORDER BY decides it; the partitions of every table together hold every inserted point exactly once (the routing is observed, not predicted).",
   note="Memstore-inclusive queries only (disk-only results depend on each node's own flush history). With ORDER BY + LIMIT the sequence of sort keys is compared (ties at the cut may be broken either way). Virtual clocks of all nodes are advanced together.",
   technique="TLA+ model checking (TLC) of the replication design + differential replay: in-process cluster of the real code vs standalone")

CHECKS["C19"] = dict(level="model_checking", design="5 C19",
   text="spec/Access.tla is a state machine of the environment of a node (configuration, clock, GitHub membership and outages of its membership API, sessions issued by real OAuth code flows) in which every request (rpc query / follow / handler registration with no, a wrong or the right password; http /run /async /immediate /cached with no, a wrong or the right static token and no, a forged or any issued session cookie) is classified by the statement (Must) and by a model of the code (Decide); TLC checks Decide against Must in every reachable state (and rejects the model of the code as shipped), and every distinct state is replayed, with a shortest history reaching it and the whole batch of requests and login attempts, on a real rpc server over 127.0.0.1 and a real web handler with a stub GitHub: a request that must be refused and receives rows, a WAL entry, the text of a cluster query or a session is a violation.",
   note="Exhaustive over the states of the specification for MaxNow/SessionLen/MaxSteps = 2/1/5 (quick) or 4/2/8 (thorough). Clock ticks are emulated by re-encoding the issued session with an earlier expiration; GitHub is a stub transport; cookie cryptography is not examined. Refusing valid credentials is reported but is not a violation of the statement.",
   technique="TLA+ model checking (TLC) of the access rules + replay of every distinct specification state on the real rpc server and web handler")

CHECKS["C13"] = dict(level="model_checking", design="5 C13",
   text="spec/Report.tla models the leader's fan-out of a cluster query (one step per critical section of the result loop: dispatch to a partition's single-use handler, row, retriable failure, partition result, the leader's time-out, finish) under a behaviour per partition (answers, no handler, fails after k rows, stalls after k rows, fails retriably) and a consumer that may stop early; TLC checks NeverSilentlyIncomplete and ReportExact for every interleaving (P = 2, 3) and exports, per fault vector, the reports the design allows. The vectors are replayed on an in-process cluster of the real code with harness-owned query handlers: a result with fewer rows than the fault-free run and neither an error nor missing-partition statistics is a violation, and the observed report must be one the specification allows (binding). The standalone part runs a query catalogue under deadlines already expired or passing while row k is handled, under the memory cap, and through the HTTP API with a 1 ns time-out / small response limits (status, body and the cached entry served to a second request).",
   note="Ground truth = the same query on the same data without the fault. An HTTP 200 is accepted as 'told' only when its statistics list the missing partition (cluster faults); for deadlines, size limits and the memory cap a 200 with fewer rows is a violation. An rpc part repeats the follower failures with follower databases answering the leader through the real rpc client and server.",
   technique="TLA+ model checking (TLC) of the query fan-out + replay of the specification's fault vectors on the real cluster code; fault enumeration for deadlines, memory cap and the HTTP API")

CHECKS["C11"] = dict(level="translation_validation", design="5 C11",
   text="spec/GenPlan.tla defines the program space of the distributed planner (select list x WHERE incl. string literals and IN-sub-queries that contain clause keywords x GROUP BY dims / expression / nothing x period x CROSSTAB x HAVING x ORDER BY x LIMIT/OFFSET x FROM table, an ordered and limited sub-query, or a chain of one or two nested grouping sub-queries) and the statement's condition for pushing a query down whole (every output group confined to one partition, for every partition-key set and table grouping); TLC enumerates the descriptors with that condition, each is rendered as SQL in three lexical variants, planned by the real planner.Plan with and without QueryCluster over mock tables whose points are split over N = 1..6 partitions by the partition keys (or by all dimensions), both plans are executed and the rows, field lists and ORDER BY sequences compared; the observed pushdown decision is checked against the specification's condition.",
   note="Per program, not for all programs at once: quick samples 1/24 of the 30402 descriptors x 4 (partition keys, table grouping, N, dataset) combinations, thorough takes all x 8. The fan-out is a sequential loop over mock partitions (the real fan-out is C10/C13). Known finding D11 (OFFSET pushed down) is listed in known_findings.json.",
   technique="TLA+-enumerated program space (TLC) + translation validation: cluster plan vs local plan of the real planner executed on split data")

CHECKS["C16"] = dict(level="exploration", design="5 C16",
   text="spec/Robust.tla gives the abstract input space (statement kind; for SELECT a base shape and up to two of 40 malformation operators: dropped / duplicated / reordered clauses, truncation, unbalanced parentheses, unknown table / field / function, wrong arity and argument kind for the functions of sql.go, bad durations and time ranges, deep nesting, keywords as identifiers, unclosed quotes, escape characters and doubled quotes inside each kind of quoting, quotes inside comments, huge numbers, control bytes, several statements; 32 classes of insert payloads x entry point) and the state machine that says what must survive (alive, pipeline running, every valid point reflected by the next probe; checked by TLC). TLC enumerates the inputs, each is rendered in several concrete variants (the variants of an operator are cycled through, so all of them are used) and submitted under recover to sql.Parse, DB.Query (planner) + Iterate, DB.Query on a cluster leader (the distributed planner's textual rewrite) and the rpc query endpoint, resp. DB.Insert, DB.InsertRaw, the HTTP insert handler and the rpc insert stream, interleaved with valid points and probes; a panic, a crashed process or a probe that does not see every valid point is a violation.",
   note="Structural classes only - no byte-level fuzzing; functions that need external services (redis, geo, isp) only with wrong arities / argument kinds. Replication is probed with odd payloads and valid points through the leader of an in-process cluster. Known finding D12 (far-future timestamps) is listed in known_findings.json and exercised in processes of its own under a memory limit.",
   technique="TLA+-enumerated input space (TLC) replayed on the real entry points under recover, with valid traffic and probes in between")

CHECKS["C20"] = dict(level="exploration", design="5 C20",
   text="spec/Wire.tla models one remote query over a lossless FIFO channel (query, field list, rows, one closing message with statistics or the follower's error) with the laws Lossless, WellFormed, ErrorReported and QueryIntact, checked by TLC. (i) Every expression tree TLC enumerates from spec/GenExpr.tla (the C05 oracle Data!Eval) travels in a field list through the real rpc.Codec: the decoded expression must have the same text, width and shift, accumulate the updates to the same state and expected value, and merge with states of the original; generated dimension/value maps over all scalar types, rows, series, points, follow, query and report messages are compared field by field. (ii) Generated and fixed queries are answered embedded, through the rpc client, and by follower databases answering a leader over rpc (points inserted through the rpc insert stream, followers fed by the rpc follow stream): the rows must be equal. (iii) The messages of every remote query, logged on both sides of the real gRPC transport (the query message with everything it carries: text, sub-query flag and results, unflat, memstore flag, deadline), are validated against spec/TraceWire.tla by TLC.",
   note="All nodes live in one process and talk over 127.0.0.1. Byte-level codec internals are observed only through behaviour. Leader and follower sessions of a partition are paired by query text within the leader session's window.",
   technique="TLA+ model checking (TLC) of the remote-query protocol + trace validation of real rpc message sequences + TLC-enumerated codec round trips and rpc-vs-embedded differential runs")

NOT_YET = {}


def main():
    hooks_commits = subprocess.run(["git", "-C", "/repo", "log", "--format=%h %s", "--grep=^verif:"],
                                   stdout=subprocess.PIPE, text=True).stdout.strip().splitlines()
    props = [json.loads(l) for l in open(os.path.join(VERIF, "properties.jsonl"))]
    checks = []
    for pid, c in CHECKS.items():
        checks.append({
            "property_id": pid,
            "quick_cmd": "./check %s --tier quick" % pid,
            "thorough_cmd": "./check %s --tier thorough" % pid,
            "evidence_file": "evidence/%s.json" % pid,
            "replay_cmd_template": "./check %s --replay {path}" % pid,
            "engine": "zv",
            "level_claimed": {"category": c["level"], "text": c["text"], "design_ref": "DESIGN.md section " + c["design"]},
            "level_note": c["note"],
            "technique": c["technique"],
        })
    na = []
    for p in props:
        if p["id"] not in CHECKS:
            na.append({"property_id": p["id"], "reason": NOT_YET.get(p["id"], "check not built yet in this round; planned per DESIGN.md section 5")})
    m = {
        "version": 1,
        "setup_cmd": "./setup.sh",
        "hooks": {
            "guard": "verif",
            "enable": "go build -tags verif (harness module /verif/harness with replace github.com/getlantern/zenodb => /repo)",
            "baseline_off_cmd": "cd /repo && GOFLAGS=-mod=mod GOPROXY=off go test -vet=off -count=1 -timeout 25m ./...",
            "source_commits": [c.split()[0] for c in hooks_commits],
            "add_only": True,
        },
        "engines": [{"name": "zv", "path": "check", "serves_properties": sorted(CHECKS),
                     "kind_free_text": "python driver: TLC (exhaustive, -simulate, trace validation) over spec/*.tla + Go harness (harness/, -tags verif) that replays behaviours into zenodb and records traces"}],
        "checks": checks,
        "not_applicable": na,
        "notes": "See DESIGN.md. known_findings.json lists recorded findings and fixed defects.",
    }
    with open(os.path.join(VERIF, "MANIFEST.json"), "w") as f:
        json.dump(m, f, indent=1)


if __name__ == "__main__":
    main()
