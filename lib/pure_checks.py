"""Checks whose cases are enumerated by TLC as an evaluator (spec/Gen*.tla)
and replayed against the real packages by zvpure: C05, C09."""
import json, os, random, re, shutil, subprocess, sys, time
from concurrent.futures import ThreadPoolExecutor
import common
from common import Verdict, InfraError
from tla import run_tlc, tla, SPEC


def gen_cases(module, constants, out_path, workdir, timeout=1800):
    """Runs spec/<module>.tla (ASSUME ndJsonSerialize(IOEnv.ZV_OUT, ...))."""
    cfg = "INIT Init\nNEXT Next\nCONSTANTS\n" + "".join("  %s = %s\n" % (k, tla(v)) for k, v in constants.items())
    mod = "---- MODULE %sRun ----\nEXTENDS %s\n====\n" % (module, module)
    # (TLC refuses to build sets of more than a million elements unless told otherwise)
    r = run_tlc(mod, module + "Run", cfg, workdir, workers=4, timeout=timeout, env={"ZV_OUT": out_path},
                java_opts="-Xss64m", extra=["-maxSetSize", "60000000"])
    m = re.search(r'<<"ZVGEN", (.*)>>', r.out)
    if not m or not os.path.exists(out_path):
        open(os.path.join(common.SCRATCH_ROOT, "last_tlc_failure.out"), "w").write(r.out)
        raise InfraError("case generation by %s failed:\n%s" % (module, r.out[-2000:]))
    return [int(x) for x in re.findall(r"\d+", m.group(1))], r.wall


def run_pure(binary, case_files, workdir, nproc=None):
    """Pipes the case lines through zvpure in parallel; returns (summary, failures)."""
    lines = []
    for f in case_files:
        with open(f) as fh:
            lines += [l for l in fh if l.strip()]
    nproc = min(nproc or common.NPROC, max(1, len(lines) // 2000 + 1))
    shards = [lines[i::nproc] for i in range(nproc)]

    def one(i):
        p = subprocess.run([binary], input="".join(shards[i]), stdout=subprocess.PIPE, stderr=subprocess.PIPE, text=True,
                           timeout=3000)
        if p.returncode != 0:
            raise InfraError("zvpure exited %d: %s" % (p.returncode, p.stderr[-1500:]))
        return p.stdout

    with ThreadPoolExecutor(nproc) as ex:
        outs = list(ex.map(one, range(nproc)))
    total = {"Cases": 0, "Evaluations": 0, "Failures": 0, "Kinds": {}}
    fails = []
    for o in outs:
        for l in o.splitlines():
            if not l.startswith("{"):
                continue      # the planner prints a few diagnostics to stdout
            rec = json.loads(l)
            if "summary" in rec:
                s = rec["summary"]
                for k in ("Cases", "Evaluations", "Failures"):
                    total[k] += s[k]
                for k, v in s["Kinds"].items():
                    total["Kinds"][k] = total["Kinds"].get(k, 0) + v
            else:
                fails.append(rec)
    return total, fails, lines


def check_C05(args):
    t0 = time.time()
    pid = "C05"
    V = Verdict(pid)
    quick = common.tier() == "quick"
    bins = common.build(("zvpure",))
    work = common.scratch(pid)
    try:
        files = []
        if args.replay:
            rp = json.load(open(args.replay))
            f = os.path.join(work, "replay.ndjson")
            open(f, "w").write(json.dumps(rp["case"]) + "\n")
            files = [f]
            counts = {}
        else:
            counts = {}
            s = common.seed()
            jobs = [("GenExpr", dict(Depth2=False, MaxUps=2 if quick else 3, Sample=1 if quick else 2), "leaf.ndjson"),
                    # (two-level trees with two updates per leaf do not finish enumerating in 30 min: the
                    # thorough tier takes every tree with one update per leaf instead of every second one)
                    ("GenExpr", dict(Depth2=True, MaxUps=1, Sample=2 if quick else 1), "tree.ndjson"),
                    ("GenSeq", dict(MaxUntil=5 if quick else 6, MaxLen=3 if quick else 4,
                                    Exprs={"SUM", "AVG"} if quick else {"SUM", "AVG", "MIN", "COUNT"},
                                    Sample=5 if quick else 1), "seq.ndjson")]
            for mod, consts, name in jobs:
                out = os.path.join(work, name)
                c, wall = gen_cases(mod, consts, out, os.path.join(work, "gen-" + name))
                counts[name] = c
                files.append(out)
                print("[%s] %s %s -> %s in %.1fs" % (pid, mod, consts, c, wall), flush=True)
        total, fails, lines = run_pure(bins["zvpure"], files, work)
        print("[%s] zvpure: %s" % (pid, total), flush=True)
        seen = set()
        for f in fails:
            key = f["fail"].split(":")[0][:60]
            if key in seen and len(seen) > 12:
                continue
            seen.add(key)
            rp = common.save_replay(pid, "case%d" % len(seen), {"case": f["case"], "fail": f["fail"]})
            V.violation(rp, f["fail"][:300])
        distinct = len(set(lines))
        cov = {"evaluations": total["Evaluations"], "distinct_nontrivial": distinct,
               "rule": "cases enumerated by TLC from spec/GenExpr.tla (expression trees over SUM COUNT MIN MAX AVG WAVG BOUNDED IF "
                       "CONST and + - * / comparisons AND OR with Data!Eval as value oracle; PERCENTILE, LN/LOG, SHIFT as law-only "
                       "leaves; update sequences over a,b in {absent,0..3} and a dimension) and spec/GenSeq.tla (all pairs of "
                       "well-formed series in a bounded window with every truncation bound; every series with every (asOf, until) "
                       "in half periods); a case is one (expression, update sequence) or (series, series, bound); every case is "
                       "checked whole, split in 2 and 3 parts in every order and association, operands byte-compared; distinct = distinct case lines",
               "samples": [json.loads(l) for l in lines[:2] + lines[-2:]],
               "cases": total["Cases"], "by_kind": total["Kinds"], "generated": counts,
               "exhaustive": not quick}
        rc = V.finish()
        common.write_evidence(pid, "exploration", cov,
                              ["values are small integers: float results are exact",
                               "PERCENTILE, LN/LOG2/LOG10 and SHIFT are checked for the merge laws only (no value oracle)",
                               "series window: periods 1..6, lengths 0..4"], time.time() - t0, len(V.violations))
        return rc
    finally:
        shutil.rmtree(work, ignore_errors=True)


def check_C09(args):
    t0 = time.time()
    pid = "C09"
    V = Verdict(pid)
    quick = common.tier() == "quick"
    bins = common.build(("zvpure",))
    work = common.scratch(pid)
    try:
        if args.replay:
            rp = json.load(open(args.replay))
            f = os.path.join(work, "replay.ndjson")
            open(f, "w").write(json.dumps(rp["case"]) + "\n")
            files, counts = [f], {}
        else:
            out = os.path.join(work, "sort.ndjson")
            # Sample thins the 3-row sequences; all 1- and 2-row sequences are always included
            consts = dict(MaxRows=3, MaxKeys=2 if quick else 3, Sample=1501 + 2 * (common.seed() % 50) if quick else 17)
            c, wall = gen_cases("GenSort", consts, out, os.path.join(work, "gen"), timeout=3000)
            print("[%s] GenSort %s -> %s in %.1fs" % (pid, consts, c, wall), flush=True)
            files, counts = [out], {"GenSort": c}
        total, fails, lines = run_pure(bins["zvpure"], files, work)
        print("[%s] zvpure: %s" % (pid, total), flush=True)
        seen = {}
        for f in fails:
            case = f["case"]
            key = json.dumps(case["keys"])
            if key in seen:
                continue
            seen[key] = 1
            if len(seen) <= 10:
                rp = common.save_replay(pid, "case%d" % len(seen), {"case": case, "fail": f["fail"]})
                V.violation(rp, "ORDER BY %s LIMIT %d OFFSET %d over %d rows: %s" % (
                    ", ".join(k["k"] + (" DESC" if k["desc"] else "") for k in case["keys"]), case["n"], case["m"], len(case["rows"]), f["fail"]))
        cov = {"evaluations": total["Evaluations"], "distinct_nontrivial": sum(1 for l in set(lines) if '"keys":[]' not in l),
               "rule": "cases enumerated by TLC from spec/GenSort.tla: row sequences (<= 3 rows over ts x dim(missing|x|y) x f x g, "
                       "arrival order included), key lists over {_time, d, f, g} x {ASC, DESC} without repetition, (limit, offset) "
                       "pairs incl. values beyond the row count; the expected result is the sequence of key vectors of the ordered "
                       "result sliced by OFFSET/LIMIT; non-trivial = at least one ORDER BY key",
               "samples": [json.loads(l) for l in lines[:1] + lines[len(lines) // 2:len(lines) // 2 + 1] + lines[-1:]],
               "cases": total["Cases"], "generated": counts, "exhaustive": False}
        rc = V.finish()
        common.write_evidence(pid, "exploration", cov,
                              ["rows are fed to core.Sort / core.Offset / core.Limit through a FlatRowSource (the operators the planner "
                               "composes for ORDER BY / LIMIT / OFFSET); the SQL parsing of the clause is not part of this check",
                               "a missing dimension sorts first (core.compare)"], time.time() - t0, len(V.violations))
        return rc
    finally:
        shutil.rmtree(work, ignore_errors=True)


CHECKS = {"C05": check_C05, "C09": check_C09}
