----------------------------- MODULE StoreProps -----------------------------
(* The listed properties as state predicates over Store, for a static schema *)
(* and points inside the retention window (C01 C02 C03).                     *)
EXTENDS Store

\* C02/C01: once ingestion has caught up, every acknowledged insert is
\* reflected exactly once in every table
ExactlyOnce == \A t \in Tables : CaughtUp(t) => View(t) = ExpectedS(t, Len(wal))

\* in-flight inserts: never more than once, in any state
AtMostOnce ==
  \A t \in opened :
    \A e \in DOMAIN View(t) :
       /\ e[4] \in 1..Len(wal)
       /\ View(t)[e] <= Mains(wal[e[4]]) + Extras(wal[e[4]])

\* offsets and rows move in lock step: what a store holds is exactly the
\* outcome of the WAL prefix its offset names
\* (while the inserts of entry mem.off are being applied one by one, the
\* view holds the prefix before it plus the part already applied)
RECURSIVE PendCells(_, _)
PendCells(t, s) ==
  IF s = <<>> THEN EmptyBag
  ELSE LET h == Head(s) IN
       (IF h.data THEN Times(MainCells(t, wal[h.idx], flds[t]), h.main)
                        (+) Times(ExtraCells(t, wal[h.idx], flds[t]), h.extra)
        ELSE EmptyBag) (+) PendCells(t, Tail(s))
SamePend(t) == SelectSeq(pend[t], LAMBDA h : h.idx = mem[t].off)
AppliedPart(t) == ExpectedS(t, mem[t].off) (-) PendCells(t, SamePend(t))

MemLockStep  == \A t \in opened : View(t) = AppliedPart(t)
\* C01 as stated: every value of every accepted point exactly once
ViewCorrect == \A t \in Tables : CaughtUp(t) => View(t) = Expected(t, Len(wal))
DiskLockStep == \A t \in Tables : \A i \in DOMAIN disk[t] :
                   OnFields(disk[t][i].cells, flds[t]) = ExpectedS(t, disk[t][i].off)
OffsetsOrdered == \A t \in opened :       /\ FileOff(t) <= mem[t].off
                                          /\ mem[t].off <= rd[t]
                                          /\ offFile[t] <= rd[t]


----------------------------------------------------------------------------
(* Retention (C14) *)

\* a file written by a flush that re-encoded every row holds no period that
\* had expired when it was written
NoExpiredInTruncatedFile ==
  \A t \in Tables : \A i \in DOMAIN disk[t] :
     disk[t][i].trunc => \A e \in DOMAIN disk[t][i].cells : Live(t, e[2], disk[t][i].now)

\* whatever is stored was inside the retention window when it was decided:
\* no stored point is older than the newest stored timestamp minus retention
\* by more than the clock could have been behind (the clock never runs ahead
\* of the accepted points)
StoredWithinWindow ==
  \A t \in opened : \A e \in DOMAIN mem[t].cells : wal[e[4]].ts >= 0

\* the cells (as a set of <<key, period, field, id>>) on which two bags differ
DiffCells(A, B) == {e \in (DOMAIN A) \cup (DOMAIN B) :
                      (IF e \in DOMAIN A THEN A[e] ELSE 0) # (IF e \in DOMAIN B THEN B[e] ELSE 0)}
=============================================================================
