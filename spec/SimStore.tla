------------------------------ MODULE SimStore ------------------------------
(* Behaviour generator for replay: TLC -simulate walks Store with a history  *)
(* variable and prints each behaviour of the requested depth as JSON; the    *)
(* harness steps the real database through the same actions (gates make the  *)
(* real goroutines take the model's interleaving) and the recorded trace is  *)
(* validated by TraceStore.                                                  *)
EXTENDS StoreProps, Json

CONSTANTS Menu, MaxFlushes, MaxCrashes, Depth, Sorted, AllowClose, AllowCrash,
          FieldMenu,   \* [Tables -> Seq(field list)]: successive definitions applied by Alter
          WhereMenu,   \* [Tables -> Seq(where id)]
          MaxScans     \* paused scans per behaviour (C18)

VARIABLES hist, crashes, nalt, scans, nscans
svars == <<vars, hist, crashes, nalt, scans, nscans>>

H(rec) == hist' = Append(hist, rec)

\* NewDB + ApplySchema: Start followed by Open of every table
StartAll ==
  /\ ~up
  /\ up' = TRUE /\ opened' = Tables /\ clock' = 0
  /\ cur' = [t \in Tables |-> Newest(t)]
  /\ mem' = [t \in Tables |-> EmptyMem(RecoveredOff(t), flds[t])]
  /\ rd' = [t \in Tables |-> RecoveredOff(t)]
  /\ pend' = [t \in Tables |-> <<>>]
  /\ fl' = [t \in Tables |-> IdleFlush]
  /\ flushCount' = [t \in Tables |-> 0]
  /\ UNCHANGED <<where, flds>>      \* the schema file is what the last Alter left
  /\ UNCHANGED <<wal, disk, offFile, nextFile>>

\* DB.Close with a quiescent pipeline: every row store runs its final forced
\* flush (data flush, or offset file if only the offset moved), then stops
FinalFile(t) == [cells |-> FlushContent(t, (flushCount[t] % TruncEvery) = TruncEvery - 1, FALSE),
                 off |-> mem[t].off, flds |-> mem[t].flds,
                 trunc |-> (flushCount[t] % TruncEvery) = TruncEvery - 1, now |-> clock]
Dirty == {t \in Tables : mem[t].cells # EmptyBag}
CleanClose ==
  /\ up /\ opened = Tables
  /\ \A t \in Tables : CaughtUp(t) /\ fl[t].pc = "idle" /\ mem[t].flds = flds[t]
  /\ nextFile + Cardinality(Dirty) <= MaxFlushes + 1
  /\ LET ids == CHOOSE f \in [Dirty -> nextFile..(nextFile + Cardinality(Dirty) - 1)] :
                    \A a, b \in Dirty : a # b => f[a] # f[b]
     IN /\ disk' = [t \in Tables |-> IF t \in Dirty THEN (ids[t] :> FinalFile(t)) @@ disk[t] ELSE disk[t]]
        /\ cur' = [t \in Tables |-> IF t \in Dirty THEN ids[t] ELSE cur[t]]
  /\ nextFile' = nextFile + Cardinality(Dirty)
  /\ offFile' = [t \in Tables |-> IF t \notin Dirty /\ mem[t].changed THEN mem[t].off ELSE offFile[t]]
  /\ mem' = [t \in Tables |-> EmptyMem(mem[t].off, mem[t].flds)]
  /\ flushCount' = [t \in Tables |-> IF t \in Dirty THEN flushCount[t] + 1 ELSE flushCount[t]]
  /\ up' = FALSE /\ opened' = {}
  /\ UNCHANGED <<wal, clock, rd, pend, fl, where, flds>>

SimInit == Init /\ hist = <<>> /\ crashes = 0 /\ nalt = [t \in Tables |-> [f |-> 0, w |-> 0]]
           /\ scans = {} /\ nscans = 0

SimNext ==
  \/ /\ Len(wal) < Len(Menu)
     /\ Insert(Menu[Len(wal) + 1]) /\ H([a |-> "Insert", i |-> Len(wal) + 1]) /\ UNCHANGED <<crashes, nalt, scans, nscans>>
  \/ \E t \in Tables :
       \/ pend[t] = <<>> /\ Decide(t) /\ H([a |-> "Decide", t |-> t]) /\ UNCHANGED <<crashes, nalt, scans, nscans>>
       \/ Apply(t) /\ H([a |-> "Apply", t |-> t]) /\ UNCHANGED <<crashes, nalt, scans, nscans>>
       \/ /\ nextFile + Cardinality({u \in Tables : fl[u].pc \in {"begun", "temp"}}) <= MaxFlushes
          /\ \E s \in Sorted : FlushBegin(t, s) /\ H([a |-> "FlushBegin", t |-> t, sorted |-> s])
          /\ UNCHANGED <<crashes, nalt, scans, nscans>>
       \/ FlushTemp(t) /\ H([a |-> "FlushTemp", t |-> t]) /\ UNCHANGED <<crashes, nalt, scans, nscans>>
       \/ FlushRename(t) /\ H([a |-> "FlushRename", t |-> t]) /\ UNCHANGED <<crashes, nalt, scans, nscans>>
       \/ FlushSwap(t) /\ H([a |-> "FlushSwap", t |-> t]) /\ UNCHANGED <<crashes, nalt, scans, nscans>>
       \/ OffWrite(t) /\ H([a |-> "OffWrite", t |-> t]) /\ UNCHANGED <<crashes, nalt, scans, nscans>>
  \/ /\ AllowCrash /\ crashes < MaxCrashes /\ Len(wal) > 0
     /\ scans = {} /\ Crash /\ crashes' = crashes + 1 /\ H([a |-> "Crash"]) /\ UNCHANGED <<nalt, scans, nscans>>
  \/ /\ AllowClose /\ crashes < MaxCrashes /\ Len(wal) > 0
     /\ scans = {} /\ CleanClose /\ crashes' = crashes + 1 /\ H([a |-> "Close"]) /\ UNCHANGED <<nalt, scans, nscans>>
  \/ StartAll /\ H([a |-> "Start"]) /\ UNCHANGED <<crashes, nalt, scans, nscans>>
  \/ /\ up /\ opened = Tables
     /\ hist # <<>> /\ hist[Len(hist)].a # "Probe"
     /\ UNCHANGED <<vars, crashes, nalt, scans, nscans>> /\ H([a |-> "Probe"])

\* table.Alter as the harness can drive it: ApplySchema returns once the row
\* store has taken the new field list, so AlterFields and RSFields are one step
AlterBoth(t) ==
  /\ up /\ t \in opened /\ fl[t].pc = "idle" /\ pend[t] = <<>>
  /\ nalt[t].f < Len(FieldMenu[t])
  /\ LET fs == FieldMenu[t][nalt[t].f + 1]
     IN /\ fs # flds[t]
        /\ flds' = [flds EXCEPT ![t] = fs]
        /\ IF mem[t].cells = EmptyBag
           THEN \* the forced flush of an empty memstore writes the offset file
                \* if the offset moved (row_store.go:257-264), then the
                \* memstore is replaced
                /\ mem' = [mem EXCEPT ![t].flds = fs, ![t].changed = FALSE]
                /\ offFile' = [offFile EXCEPT ![t] = IF mem[t].changed THEN mem[t].off ELSE @]
                /\ UNCHANGED fl
           ELSE /\ mem' = [mem EXCEPT ![t].flds = fs, ![t].cells = OnFields(@, fs)]
                /\ fl' = [fl EXCEPT ![t] = [pc |-> "pre"]]
                /\ UNCHANGED offFile
        /\ H([a |-> "AlterFields", t |-> t, fs |-> fs])
  /\ nalt' = [nalt EXCEPT ![t].f = @ + 1]
  /\ UNCHANGED <<wal, clock, up, opened, rd, pend, cur, disk, flushCount, where, nextFile, crashes, scans, nscans>>

AlterW(t) ==
  /\ nalt[t].w < Len(WhereMenu[t])
  /\ fl[t].pc = "idle" /\ pend[t] = <<>>
  /\ LET w == WhereMenu[t][nalt[t].w + 1]
     IN AlterWhere(t, w) /\ H([a |-> "AlterWhere", t |-> t, w |-> w])
  /\ nalt' = [nalt EXCEPT ![t].w = @ + 1]
  /\ UNCHANGED <<crashes, scans, nscans>>

\* A scan that is held after its j-th row while the pipeline moves on (C18):
\* ScanBegin is rowStore.iterate's snapshot (with hd the scan is held right after
\* it, before it registers itself and opens the file), ScanEnd the delivery of the rest.
ScanBegin(t, m, j, hd) ==
  /\ up /\ opened = Tables /\ t \notin scans /\ nscans < MaxScans
  /\ View(t) # EmptyBag
  /\ scans' = scans \cup {t} /\ nscans' = nscans + 1
  /\ H([a |-> "ScanBegin", t |-> t, mem |-> m, j |-> j, hold |-> hd])
  /\ UNCHANGED <<vars, crashes, nalt>>
ScanEnd(t) ==
  /\ t \in scans
  /\ scans' = scans \ {t}
  /\ H([a |-> "ScanEnd", t |-> t])
  /\ UNCHANGED <<vars, crashes, nalt, nscans>>

SimNextAll == \/ SimNext
              \/ \E t \in Tables : AlterBoth(t) \/ AlterW(t) \/ ScanEnd(t)
              \/ \E t \in Tables, m \in BOOLEAN, j \in 0..2, hd \in BOOLEAN : ScanBegin(t, m, j, hd)

SimSpec == SimInit /\ [][SimNextAll]_svars

\* printed once per behaviour: when it reaches the requested depth, or earlier
\* when nothing more can happen within the bounds
Emit == (Len(hist) = Depth \/ (Len(hist) < Depth /\ Len(hist) > 8 /\ ~ENABLED SimNextAll))
          => PrintT(<<"ZVSIM", ToJson(hist)>>)
=============================================================================
