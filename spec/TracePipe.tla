------------------------------ MODULE TracePipe ------------------------------
(***************************************************************************)
(* Trace validation for Pipeline: the hook events of executions that /verif *)
(* does not drive itself - the repository's own tests (TestSingleDB,        *)
(* TestStorage, TestServers with its restarts of leaders and followers over *)
(* the real rpc transport), recorded through `go test -overlay` - are       *)
(* checked, event by event, to be a behaviour of spec/Pipeline.tla.         *)
(*                                                                           *)
(* lib/pipe_checks.py prepares the lines: one "life" per table instance     *)
(* (table name + the instance's identity), lives of one table in one        *)
(* directory chained in the order in which they were opened, offsets        *)
(* replaced by their rank (0 = none), offset maps completed over all        *)
(* sources.  Every logged field is bound: the entry of Read / Offer /       *)
(* Verdict / Apply, the offsets a flush or an offset write makes durable,   *)
(* the flush counter, the file a flush starts from, produces and installs,  *)
(* the file a scan takes, the files that are removed, and the offsets a     *)
(* restarted table resumes from (which must be exactly what the previous    *)
(* life left durable).                                                       *)
(*                                                                           *)
(* Cluster events (no routing known here) are held to the rules that need   *)
(* none: a leader includes a follower for an entry only after the smallest  *)
(* starting point it computed for that follower's tables, in increasing     *)
(* order since the follower joined; a follower hands a table only entries   *)
(* after the last one it handed it from the same leader.                    *)
(***************************************************************************)
EXTENDS Pipeline, Json, IOUtils, FiniteSetsExt

Trace == ndJsonDeserialize(IOEnv.ZV_TRACE)

VARIABLES l,
  opened,     \* lives that have been opened
  succ,       \* lives whose table has been opened again (in the same directory)
  curfile,    \* [life -> name of the file store scans take]
  durname,    \* [life -> name of the newest renamed file]
  gone,       \* [life -> files removed]
  nfl,        \* [life -> flushes begun]
  offtmp,     \* [life -> an offset write is between its temp file and its rename]
  fo,         \* [life -> [source -> last entry handed to the table by the follower]]
  jmin,       \* <<leader life, follower>> -> smallest starting point of the current join
  jopen,      \* keys whose join is still being recorded (no entry processed since)
  sent,       \* <<leader life, follower>> -> last entry the follower was included for since it joined
  broken,     \* lives (and leader lives) whose events are no longer checked
  fails
tvars == <<pvars, l, opened, succ, curfile, durname, gone, nfl, offtmp, fo, jmin, jopen, sent, broken, fails>>

Line == Trace[l]
T == Line.t
IsEv(e) == l <= Len(Trace) /\ Line.a = e /\ T \notin broken /\ l' = l + 1
Upd(f, k, v) == [x \in DOMAIN f \cup {k} |-> IF x = k THEN v ELSE f[x]]
Offs == [s \in Sources |-> Line.offs[s]]
Same == UNCHANGED <<opened, succ, curfile, durname, gone, nfl, offtmp, fo, jmin, jopen, sent, broken, fails>>

TraceInit ==
  /\ PInit /\ l = 1 /\ opened = {} /\ succ = {}
  /\ curfile = [t \in Tables |-> ""] /\ durname = [t \in Tables |-> ""] /\ gone = [t \in Tables |-> {}]
  /\ nfl = [t \in Tables |-> 0] /\ offtmp = [t \in Tables |-> FALSE]
  /\ fo = [t \in Tables |-> Zero]
  /\ jmin = <<>> /\ jopen = {} /\ sent = <<>> /\ broken = {} /\ fails = {}

\* a table instance opens.  A first life starts from whatever its directory holds; a later
\* life of the same table in the same directory resumes exactly from what the previous
\* life left durable, and finds that life's newest file.
TOpen ==
  /\ IsEv("rs.open") /\ T \notin opened
  /\ LET p == Line.prev IN
       IF p = "" \/ p \in broken
       THEN /\ durFile' = [durFile EXCEPT ![T] = [offs |-> Offs, set |-> {}]]
            /\ durOff' = [durOff EXCEPT ![T] = Zero]
       ELSE IF ~Line.crash
       THEN /\ Offs = Rec(p)
            /\ fl[p] \in {"idle", "swapped"}                         \* the previous life was not inside a flush
            /\ Line.file = durname[p]
            /\ durFile' = [durFile EXCEPT ![T] = [offs |-> durFile[p].offs, set |-> durFile[p].set]]
            /\ durOff' = [durOff EXCEPT ![T] = durOff[p]]
       ELSE \* the previous life was killed at an unknown instant after its last event: what it
            \* left durable is what the events say, or one step further - the rename of the flush
            \* whose temp file was complete, or of the offset file that was being written
            LET logged == [offs |-> Rec(p), set |-> durFile[p].set, file |-> durname[p]]
                flushed == [offs |-> [s \in Sources |-> Max2(flw[p].offs[s], durOff[p][s])], set |-> flw[p].set, file |-> "?"]
                offsets == [offs |-> [s \in Sources |-> Max2(durFile[p].offs[s], applied[p][s])], set |-> durFile[p].set, file |-> durname[p]]
                cands == {logged} \cup (IF fl[p] = "temp" THEN {flushed} ELSE {}) \cup (IF offtmp[p] THEN {offsets} ELSE {})
            IN /\ \E c \in cands :
                    /\ Offs = c.offs /\ (c.file = "?" \/ Line.file = c.file)
                    /\ durFile' = [durFile EXCEPT ![T] = [offs |-> Offs, set |-> c.set]]
               /\ durOff' = [durOff EXCEPT ![T] = Zero]
  /\ rd' = [rd EXCEPT ![T] = Offs] /\ applied' = [applied EXCEPT ![T] = Offs]
  /\ cur' = [cur EXCEPT ![T] = durFile'[T]]
  /\ opened' = opened \cup {T} /\ succ' = IF Line.prev = "" THEN succ ELSE succ \cup {Line.prev}
  /\ curfile' = [curfile EXCEPT ![T] = Line.file] /\ durname' = [durname EXCEPT ![T] = Line.file]
  /\ fo' = [fo EXCEPT ![T] = Offs]
  /\ UNCHANGED <<up, pend, queue, mem, offchg, fl, flw, gone, nfl, offtmp, jmin, jopen, sent, broken, fails>>

Live == T \in opened
TReady == IsEv("rs.ready") /\ Live /\ UNCHANGED pvars /\ Same
TRead == IsEv("tbl.read") /\ Live /\ Read(T, Line.src, Line.off) /\ Same
TOffer == IsEv("rs.offer") /\ Live /\ pend[T].src = Line.src /\ pend[T].off = Line.off /\ Offer(T, Line.kind = 0) /\ Same
TVerdict == IsEv("tbl.verdict") /\ Live /\ pend[T].src = Line.src /\ pend[T].off = Line.off /\ Verdict(T) /\ Same
TApply == /\ IsEv("rs.apply") /\ Live /\ queue[T] # <<>>
          /\ Head(queue[T]) = [src |-> Line.src, off |-> Line.off, key |-> Line.key]
          /\ Apply(T) /\ Same
\* a life that has a successor writes nothing any more
Writes == Live /\ T \notin succ
TFlushBegin == /\ IsEv("flush.begin") /\ Writes /\ Offs = applied[T] /\ Line.file = curfile[T] /\ Line.n = nfl[T] + 1
               /\ FlushBegin(T) /\ nfl' = [nfl EXCEPT ![T] = @ + 1]
               /\ UNCHANGED <<opened, succ, curfile, durname, gone, offtmp, fo, jmin, jopen, sent, broken, fails>>
TFlushTemp == IsEv("flush.temp") /\ Writes /\ FlushTemp(T) /\ Same
TFlushRenamed == /\ IsEv("flush.renamed") /\ Writes /\ Offs = flw[T].offs
                 /\ Line.file # "" /\ Line.file # curfile[T] /\ Line.file \notin gone[T]
                 /\ FlushRenamed(T) /\ durname' = [durname EXCEPT ![T] = Line.file]
                 /\ UNCHANGED <<opened, succ, curfile, gone, nfl, offtmp, fo, jmin, jopen, sent, broken, fails>>
TFlushSwapped == /\ IsEv("flush.swapped") /\ Writes /\ Line.file = durname[T]
                 /\ FlushSwapped(T) /\ curfile' = [curfile EXCEPT ![T] = Line.file]
                 /\ UNCHANGED <<opened, succ, durname, gone, nfl, offtmp, fo, jmin, jopen, sent, broken, fails>>
TFlushDone == IsEv("flush.done") /\ Writes /\ Line.file = curfile[T] /\ FlushDone(T) /\ Same
\* the offsets alone: temp file, then rename
TOffTemp == /\ IsEv("off.temp") /\ Writes /\ ~offtmp[T] /\ Offs = applied[T] /\ ENABLED OffWrite(T)
            /\ offtmp' = [offtmp EXCEPT ![T] = TRUE] /\ UNCHANGED pvars
            /\ UNCHANGED <<opened, succ, curfile, durname, gone, nfl, fo, jmin, jopen, sent, broken, fails>>
TOffWritten == /\ IsEv("off.written") /\ Writes /\ offtmp[T] /\ Offs = applied[T]
               /\ IF Line.err THEN UNCHANGED pvars ELSE OffWrite(T)
               /\ offtmp' = [offtmp EXCEPT ![T] = FALSE]
               /\ UNCHANGED <<opened, succ, curfile, durname, gone, nfl, fo, jmin, jopen, sent, broken, fails>>
\* only files that neither a scan nor a restart would take are removed
TOldRemove == /\ IsEv("old.remove") /\ Writes /\ Line.file \notin {curfile[T], durname[T], ""}
              /\ gone' = [gone EXCEPT ![T] = @ \cup {Line.file}] /\ UNCHANGED pvars
              /\ UNCHANGED <<opened, succ, curfile, durname, nfl, offtmp, fo, jmin, jopen, sent, broken, fails>>
\* a scan takes the installed file store (and, with it, the memstore of the same instant)
TIterStart == IsEv("iter.start") /\ Live /\ Line.file = curfile[T] /\ UNCHANGED pvars /\ Same
TOther == IsEv("other") /\ UNCHANGED pvars /\ Same
\* a schema change is handled by the row store between applies and flushes
TFields == IsEv("rs.fields") /\ Live /\ fl[T] = "idle" /\ UNCHANGED pvars /\ Same

\* --- cluster events -----------------------------------------------------------
K == <<T, Line.fol>>
TJoined == /\ IsEv("ldr.joined")
           /\ jmin' = Upd(jmin, K, IF K \in jopen THEN Min({jmin[K], Line.off}) ELSE Line.off)
           /\ jopen' = jopen \cup {K}
           /\ sent' = Upd(sent, K, 0)
           /\ UNCHANGED pvars /\ UNCHANGED <<opened, succ, curfile, durname, gone, nfl, offtmp, fo, broken, fails>>
TEntry == /\ IsEv("ldr.entry")
          /\ \A j \in DOMAIN Line.inc :
               LET k == <<T, Line.inc[j]>> IN
                 k \in DOMAIN jmin /\ Line.off > jmin[k] /\ Line.off > sent[k]
          /\ sent' = [k \in DOMAIN sent |-> IF \E j \in DOMAIN Line.inc : k = <<T, Line.inc[j]>> THEN Line.off ELSE sent[k]]
          /\ jopen' = {k \in jopen : k[1] # T}      \* joins of this leader are closed
          /\ UNCHANGED pvars /\ UNCHANGED <<opened, succ, curfile, durname, gone, nfl, offtmp, fo, jmin, broken, fails>>
TFolOffer == /\ IsEv("fol.offer") /\ Live /\ Line.off > fo[T][Line.src]
             /\ fo' = [fo EXCEPT ![T][Line.src] = Line.off]
             /\ UNCHANGED pvars /\ UNCHANGED <<opened, succ, curfile, durname, gone, nfl, offtmp, jmin, jopen, sent, broken, fails>>

Normal == \/ TOpen \/ TReady \/ TRead \/ TOffer \/ TVerdict \/ TApply
          \/ TFlushBegin \/ TFlushTemp \/ TFlushRenamed \/ TFlushSwapped \/ TFlushDone
          \/ TOffTemp \/ TOffWritten \/ TOldRemove \/ TIterStart \/ TOther \/ TFields
          \/ TJoined \/ TEntry \/ TFolOffer
\* events of a life that is no longer followed are consumed
TIgnored == /\ l <= Len(Trace) /\ T \in broken /\ l' = l + 1 /\ UNCHANGED pvars
            /\ UNCHANGED <<opened, succ, curfile, durname, gone, nfl, offtmp, fo, jmin, jopen, sent, broken, fails>>
\* an event the specification cannot follow: recorded with the state it met; the life is dropped
TStuck == /\ l <= Len(Trace) /\ T \notin broken /\ ~ENABLED Normal
          /\ fails' = fails \cup {[at |-> l, t |-> T,
                                   st |-> IF T \in Tables
                                          THEN [up |-> T \in opened, rd |-> rd[T], pend |-> pend[T], queue |-> Len(queue[T]), applied |-> applied[T],
                                                mem |-> Cardinality(mem[T]), offchg |-> offchg[T], fl |-> fl[T], flw |-> flw[T].offs,
                                                durFile |-> durFile[T].offs, durOff |-> durOff[T], curfile |-> curfile[T], durname |-> durname[T],
                                                nfl |-> nfl[T]]
                                          ELSE [up |-> TRUE]]}
          /\ broken' = broken \cup {T}
          /\ l' = l + 1 /\ UNCHANGED pvars
          /\ UNCHANGED <<opened, succ, curfile, durname, gone, nfl, offtmp, fo, jmin, jopen, sent>>
TraceNext == Normal \/ TIgnored \/ TStuck
TraceSpec == TraceInit /\ [][TraceNext]_tvars

\* the design's invariants, evaluated at every state of the observed execution
TDurableBehind == \A t \in opened \cap Tables : \A s \in Sources : durFile[t].offs[s] <= applied[t][s] /\ durOff[t][s] <= applied[t][s]
TNoOverlap == \A t \in opened \cap Tables : cur[t].set \cap mem[t] = {}

Done == (l = Len(Trace) + 1) => PrintT(<<"ZVTRACE", ToJson([lines |-> Len(Trace), fails |-> fails, lives |-> Cardinality(opened)])>>)
=============================================================================
