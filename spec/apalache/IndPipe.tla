------------------------------ MODULE IndPipe ------------------------------
(***************************************************************************)
(* An inductive invariant for MCPipeline, discharged by Apalache           *)
(* (lib: `selftest/indpipe.sh`): for every set Keyed of accepted entries,   *)
(* every number of crashes and every length of behaviour - TLC covers the  *)
(* reachable states of one instance, this covers all states that satisfy   *)
(* IndInv for streams of StreamLen entries per source.                      *)
(*   Init => IndInv                 (--init=MCInit   --length=0)            *)
(*   IndInv /\ Next => IndInv'      (--init=IndInit  --length=1)            *)
(*   IndInv => Recoverable etc.     (--init=IndInit  --length=0)            *)
(***************************************************************************)
EXTENDS MCPipeline, Apalache

CInit ==
  /\ Tables = {"t"} /\ Sources = {"s0", "s1"}
  /\ StreamLen = 3 /\ MaxCrashes = 1
  /\ Keyed \in SUBSET ({"t"} \X {"s0", "s1"} \X (1..3))

\* @type: Set(<<Str, Int>>);
Ents == Sources \X (1..StreamLen)
\* @type: (Str, <<Str, Int>>) => Bool;
K(t, e) == <<t, e[1], e[2]>> \in Keyed
\* the accepted entries of table t up to the offsets o
\* @type: (Str, Str -> Int) => Set(<<Str, Int>>);
UpTo(t, o) == {e \in Ents : K(t, e) /\ e[2] <= o[e[1]]}
Phases == {"idle", "begin", "temp", "renamed", "swapped"}
\* @type: (Str -> Int, Str -> Int) => Bool;
Leq(a, b) == \A s \in Sources : a[s] <= b[s]
\* the last entry of source s that has been handed to the row store
Hand(t, s) == IF pend[t].off # 0 /\ pend[t].src = s /\ ~pend[t].offered THEN rd[t][s] - 1 ELSE rd[t][s]

TypeOK ==
  /\ DOMAIN up = Tables /\ DOMAIN rd = Tables /\ DOMAIN pend = Tables /\ DOMAIN queue = Tables
  /\ DOMAIN applied = Tables /\ DOMAIN mem = Tables /\ DOMAIN offchg = Tables /\ DOMAIN fl = Tables
  /\ DOMAIN flw = Tables /\ DOMAIN cur = Tables /\ DOMAIN durFile = Tables /\ DOMAIN durOff = Tables
  /\ \A t \in Tables :
       /\ DOMAIN rd[t] = Sources /\ DOMAIN applied[t] = Sources /\ DOMAIN durOff[t] = Sources
       /\ DOMAIN flw[t].offs = Sources /\ DOMAIN cur[t].offs = Sources /\ DOMAIN durFile[t].offs = Sources
       /\ \A s \in Sources : /\ rd[t][s] \in 0..StreamLen /\ applied[t][s] \in 0..StreamLen /\ durOff[t][s] \in 0..StreamLen
                             /\ flw[t].offs[s] \in 0..StreamLen /\ cur[t].offs[s] \in 0..StreamLen /\ durFile[t].offs[s] \in 0..StreamLen
       /\ mem[t] \subseteq Ents /\ flw[t].set \subseteq Ents /\ cur[t].set \subseteq Ents /\ durFile[t].set \subseteq Ents
       /\ fl[t] \in Phases
       /\ pend[t].off \in 0..StreamLen /\ pend[t].src \in Sources \cup {""}
       /\ Len(queue[t]) <= 2 * StreamLen
       /\ \A i \in DOMAIN queue[t] : queue[t][i].src \in Sources /\ queue[t][i].off \in 1..StreamLen

Inv(t) ==
  \* the durable file holds exactly the accepted entries up to its offsets, and no accepted
  \* entry lies between them and the offset file's
  /\ durFile[t].set = UpTo(t, durFile[t].offs)
  /\ \A e \in Ents : (K(t, e) /\ e[2] > durFile[t].offs[e[1]]) => e[2] > durOff[t][e[1]]
  /\ ~up[t] => (fl[t] = "idle" /\ queue[t] = <<>> /\ pend[t].off = 0 /\ mem[t] = {})
  /\ up[t] =>
       /\ Leq(durFile[t].offs, applied[t]) /\ Leq(durOff[t], applied[t]) /\ Leq(applied[t], rd[t])
       /\ cur[t].set = UpTo(t, cur[t].offs) /\ Leq(cur[t].offs, applied[t])
       /\ mem[t] = {e \in Ents : K(t, e) /\ e[2] > cur[t].offs[e[1]] /\ e[2] <= applied[t][e[1]]}
       \* the flush in progress
       /\ fl[t] \in {"idle", "begin", "temp"} => cur[t] = durFile[t]
       /\ fl[t] # "idle" => (flw[t].offs = applied[t] /\ flw[t].set = UpTo(t, applied[t]))
       /\ fl[t] \in {"renamed", "swapped"} => durFile[t] = flw[t]
       /\ fl[t] = "swapped" => cur[t] = flw[t]
       \* what has been read and not yet applied is in the queue, in order, once, with the
       \* table's verdict: exactly the entries after applied up to rd (less the one that has
       \* been read and not handed over yet)
       /\ \A i \in DOMAIN queue[t] :
            /\ queue[t][i].off > applied[t][queue[t][i].src] /\ queue[t][i].off <= Hand(t, queue[t][i].src)
            /\ queue[t][i].key = (<<t, queue[t][i].src, queue[t][i].off>> \in Keyed)
            /\ \A j \in DOMAIN queue[t] : (i < j /\ queue[t][i].src = queue[t][j].src) => queue[t][i].off < queue[t][j].off
       /\ \A s \in Sources : Hand(t, s) >= applied[t][s]
       /\ \A e \in Ents : (e[2] > applied[t][e[1]] /\ e[2] <= Hand(t, e[1]))
                              => \E i \in DOMAIN queue[t] : queue[t][i].src = e[1] /\ queue[t][i].off = e[2]
       /\ pend[t].off # 0 => (pend[t].src \in Sources /\ pend[t].off <= rd[t][pend[t].src]
                              /\ (~pend[t].offered => pend[t].off = rd[t][pend[t].src]))
       /\ pend[t].off = 0 => ~pend[t].offered

IndInv == TypeOK /\ \A t \in Tables : Inv(t)

IndInit ==
  /\ up = Gen(1) /\ rd = Gen(2) /\ pend = Gen(1) /\ queue = Gen(6) /\ applied = Gen(2) /\ mem = Gen(6)
  /\ offchg = Gen(1) /\ fl = Gen(1) /\ flw = Gen(6) /\ cur = Gen(6) /\ durFile = Gen(6) /\ durOff = Gen(2)
  /\ crashes = 0
  /\ IndInv

\* what the invariant is for
Safe == DurableBehind /\ Recoverable /\ Visible
=============================================================================
