-------------------------------- MODULE Data --------------------------------
(***************************************************************************)
(* Value semantics of zenodb's aggregate expressions, written from their   *)
(* definitions (not from the accumulator code): the value of an expression *)
(* over a multiset (here: sequence) of updates.  Values are exact           *)
(* rationals [n, d]; `set' says whether the expression has a value at all.  *)
(*                                                                         *)
(* An update is a record [a, b, x]: a and b are the numeric parameters a    *)
(* point carries (-1 = the point does not carry it), x is a dimension the   *)
(* IF conditions test.                                                      *)
(*                                                                         *)
(* Expressions (records):                                                   *)
(*   [k |-> "SUM"|"COUNT"|"MIN"|"MAX"|"AVG", f |-> "a"|"b"]                 *)
(*   [k |-> "WAVG", f, w]                                                   *)
(*   [k |-> "BSUM"|"BAVG", f, lo, hi]        SUM / AVG of BOUNDED(f, lo, hi) *)
(*   [k |-> "IF", c |-> 0|1, e |-> expr]     IF(x = c, e)                    *)
(*   [k |-> "CONST", v |-> Int]                                             *)
(*   [k |-> "BIN", op |-> "+"|"-"|"*"|"/"|"<"|"<="|"="|"<>"|">="|">"|"AND"|"OR", l, r] *)
(***************************************************************************)
EXTENDS Integers, Sequences, FiniteSets, FiniteSetsExt, TLC

Q(n, d) == [n |-> n, d |-> d]
Val(set, n, d) == [set |-> set, n |-> n, d |-> d, inf |-> FALSE]
Unset == Val(FALSE, 0, 1)

Param(u, f) == IF f = "a" THEN u.a ELSE u.b
Has(u, f) == Param(u, f) # -1

SumOf(S, g(_)) == FoldSet(LAMBDA i, acc : acc + g(i), 0, S)

\* indices of the updates that feed an aggregate of field f (within bounds)
Feeding(ups, f, lo, hi) == {i \in DOMAIN ups : Has(ups[i], f) /\ Param(ups[i], f) >= lo /\ Param(ups[i], f) <= hi}

RECURSIVE Eval(_, _)
Eval(e, ups) ==
  CASE e.k = "CONST" -> Val(TRUE, e.v, 1)
    [] e.k \in {"SUM", "COUNT", "MIN", "MAX", "AVG", "BSUM", "BAVG", "WAVG"} ->
         LET lo == IF e.k \in {"BSUM", "BAVG"} THEN e.lo ELSE -1000
             hi == IF e.k \in {"BSUM", "BAVG"} THEN e.hi ELSE 1000
             I  == Feeding(ups, e.f, lo, hi)
             v(i) == Param(ups[i], e.f)
         IN IF I = {} THEN Unset
            ELSE (CASE e.k \in {"SUM", "BSUM"} -> Val(TRUE, SumOf(I, v), 1)
                   [] e.k = "COUNT" -> Val(TRUE, Cardinality(I), 1)
                   [] e.k = "MIN" -> Val(TRUE, Min({v(i) : i \in I}), 1)
                   [] e.k = "MAX" -> Val(TRUE, Max({v(i) : i \in I}), 1)
                   [] e.k \in {"AVG", "BAVG"} -> Val(TRUE, SumOf(I, v), Cardinality(I))
                   [] e.k = "WAVG" ->
                        LET w(i) == IF Has(ups[i], e.w) THEN Param(ups[i], e.w) ELSE 0
                            tw == SumOf(I, w)
                        IN IF tw = 0 THEN Val(TRUE, 0, 1)
                           ELSE Val(TRUE, SumOf(I, LAMBDA i : v(i) * w(i)), tw))
    [] e.k = "IF" -> Eval(e.e, SelectSeq(ups, LAMBDA u : u.x = e.c))
    [] e.k = "BIN" ->
         LET l == Eval(e.l, ups)
             r == Eval(e.r, ups)
             \* an unset side counts as 0
             ln == IF l.set THEN l.n ELSE 0
             ld == IF l.set THEN l.d ELSE 1
             rn == IF r.set THEN r.n ELSE 0
             rd == IF r.set THEN r.d ELSE 1
             lt == ln * rd < rn * ld
             eq == ln * rd = rn * ld
             B(b) == Val(TRUE, IF b THEN 1 ELSE 0, 1)
         IN IF ~l.set /\ ~r.set THEN Unset
            ELSE IF l.inf \/ r.inf THEN [set |-> TRUE, n |-> 0, d |-> 1, inf |-> TRUE]
            ELSE (CASE e.op = "+" -> Val(TRUE, ln * rd + rn * ld, ld * rd)
                   [] e.op = "-" -> Val(TRUE, ln * rd - rn * ld, ld * rd)
                   [] e.op = "*" -> Val(TRUE, ln * rn, ld * rd)
                   [] e.op = "/" -> IF rn = 0
                                    THEN (IF ln = 0 THEN Val(TRUE, 0, 1)
                                          ELSE [set |-> TRUE, n |-> 0, d |-> 1, inf |-> TRUE])   \* "very large"
                                    ELSE IF rn > 0 THEN Val(TRUE, ln * rd, ld * rn)
                                    ELSE Val(TRUE, -(ln * rd), -(ld * rn))
                   [] e.op = "<" -> B(lt)
                   [] e.op = "<=" -> B(lt \/ eq)
                   [] e.op = "=" -> B(eq)
                   [] e.op = "<>" -> B(~eq)
                   [] e.op = ">=" -> B(~lt)
                   [] e.op = ">" -> B(~lt /\ ~eq)
                   [] e.op = "AND" -> B(ln > 0 /\ rn > 0)
                   [] e.op = "OR" -> B(ln > 0 \/ rn > 0))
=============================================================================
