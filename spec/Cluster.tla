------------------------------- MODULE Cluster -------------------------------
(***************************************************************************)
(* Leader/follower replication of one stream (cluster_follow.go,           *)
(* server/server.go:409-473).  Leaders only keep a WAL.  A follower of      *)
(* partition p keeps, per table and per leader (source), the offset of the  *)
(* last entry offered to that table; the persisted copy of these offsets    *)
(* lives in the table's file store header.  On (re)connect the follower     *)
(* sends its per-table offsets and the offset of the last entry delivered   *)
(* on this link; the leader starts each (follower, table) at the maximum of *)
(* the two, restarts its reader at the minimum over all known followers and *)
(* sends an entry to a follower iff one of the follower's tables accepts it *)
(* (partition and WHERE) and it lies after that table's starting point.     *)
(*                                                                         *)
(* Row stores are abstracted to sets of entry references <<leader, index>>  *)
(* (spec/Store.tla covers the flush protocol); a flush moves the memstore   *)
(* into the file together with the table's offsets.                         *)
(***************************************************************************)
EXTENDS Integers, Sequences, FiniteSets, TLC, Json

CONSTANTS
  Leaders, Followers, Tables,
  PartOf,     \* [Followers -> partition]
  Part,       \* [Tables -> [entry key -> partition]]   the routing of each table
  Menu,       \* [Leaders -> Seq of entries [id, k, sat]]
  Where,      \* [Tables -> where id]
  MaxFaults, Depth

VARIABLES
  lwal, lup, spec, lrd, q, link,
  fup, toff, poff, memA, fileA, earliest, snap,
  dups, faults, hist

vars == <<lwal, lup, spec, lrd, q, link, fup, toff, poff, memA, fileA, earliest, snap, dups, faults, hist>>
view == <<lwal, lup, spec, lrd, q, link, fup, toff, poff, memA, fileA, earliest, snap, dups, faults>>

Max2(a, b) == IF a >= b THEN a ELSE b
MinSet(S) == CHOOSE x \in S : \A y \in S : x <= y
H(rec) == hist' = Append(hist, rec)

Accepts(f, t, e) == PartOf[f] = Part[t][e.k] /\ Where[t] \in e.sat

Init ==
  /\ lwal = [l \in Leaders |-> <<>>] /\ lup = [l \in Leaders |-> TRUE]
  /\ spec = [l \in Leaders |-> [f \in Followers |-> [t \in Tables |-> -1]]]
  /\ lrd = [l \in Leaders |-> 0]
  /\ q = [l \in Leaders |-> [f \in Followers |-> <<>>]]
  /\ link = [l \in Leaders |-> [f \in Followers |-> FALSE]]
  /\ fup = [f \in Followers |-> TRUE]
  /\ toff = [f \in Followers |-> [t \in Tables |-> [l \in Leaders |-> 0]]]
  /\ poff = toff
  /\ memA = [f \in Followers |-> [t \in Tables |-> {}]]
  /\ fileA = memA
  /\ earliest = [f \in Followers |-> [l \in Leaders |-> 0]]
  /\ snap = [f \in Followers |-> [has |-> FALSE]]
  /\ dups = 0 /\ faults = 0 /\ hist = <<>>

\* DB.Insert on a leader: WAL only
LInsert(l) ==
  /\ lup[l] /\ Len(lwal[l]) < Len(Menu[l])
  /\ lwal' = [lwal EXCEPT ![l] = Append(@, Menu[l][Len(@) + 1])]
  /\ H([a |-> "Insert", l |-> l, i |-> Len(lwal[l]) + 1])
  /\ UNCHANGED <<lup, spec, lrd, q, link, fup, toff, poff, memA, fileA, earliest, snap, dups, faults>>

\* the follower (re)connects: processFollowers.onFollowerJoined (cluster_follow.go:128-180),
\* then the reader restarts at the earliest offset of all specs (:267-306)
Connect(f, l) ==
  /\ fup[f] /\ lup[l] /\ ~link[l][f]
  /\ LET newspec == [spec[l] EXCEPT ![f] = [t \in Tables |-> Max2(toff[f][t][l], earliest[f][l])]]
         all == {newspec[g][t] : g \in Followers, t \in Tables} \ {-1}
     IN /\ spec' = [spec EXCEPT ![l] = newspec]
        /\ lrd' = [lrd EXCEPT ![l] = MinSet(all)]
  /\ q' = [q EXCEPT ![l][f] = <<>>]
  /\ link' = [link EXCEPT ![l][f] = TRUE]
  /\ H([a |-> "Connect", f |-> f, l |-> l])
  /\ UNCHANGED <<lwal, lup, fup, toff, poff, memA, fileA, earliest, snap, dups, faults>>

\* one WAL entry through partitioning and the followers' specs (:322-345)
LProcess(l) ==
  /\ lup[l] /\ lrd[l] < Len(lwal[l])
  /\ \E g \in Followers, u \in Tables : spec[l][g][u] # -1
  /\ LET i == lrd[l] + 1
         e == lwal[l][i]
         wants(f, t) == spec[l][f][t] # -1 /\ PartOf[f] = Part[t][e.k]
         incl == {f \in Followers : \E t \in Tables : wants(f, t) /\ Where[t] \in e.sat /\ i > spec[l][f][t]}
     IN /\ spec' = [spec EXCEPT ![l] = [f \in Followers |-> [t \in Tables |->
                       IF wants(f, t) THEN Max2(@[f][t], i) ELSE @[f][t]]]]
        /\ q' = [q EXCEPT ![l] = [f \in Followers |-> IF f \in incl /\ link[l][f] THEN Append(@[f], i) ELSE @[f]]]
        /\ lrd' = [lrd EXCEPT ![l] = i]
  /\ UNCHANGED <<lwal, lup, link, fup, toff, poff, memA, fileA, earliest, snap, dups, faults, hist>>

\* the follower's insert callback (:758-786) offers the entry to every table
\* whose offset it lies after; the table accepts it if it is in its partition and
\* passes its WHERE (insert.go:139, :178)
Deliver(l, f) ==
  /\ link[l][f] /\ fup[f] /\ q[l][f] # <<>>
  /\ LET i == Head(q[l][f])
         e == lwal[l][i]
         offered == {t \in Tables : i > toff[f][t][l]}
         taken == {t \in offered : Accepts(f, t, e)}
     IN /\ toff' = [toff EXCEPT ![f] = [t \in Tables |-> IF t \in offered THEN [@[t] EXCEPT ![l] = i] ELSE @[t]]]
        /\ memA' = [memA EXCEPT ![f] = [t \in Tables |-> IF t \in taken THEN @[t] \cup {<<l, i>>} ELSE @[t]]]
        /\ dups' = dups + Cardinality({t \in taken : <<l, i>> \in memA[f][t] \cup fileA[f][t]})
        /\ earliest' = [earliest EXCEPT ![f][l] = i]
  /\ q' = [q EXCEPT ![l][f] = Tail(@)]
  /\ UNCHANGED <<lwal, lup, spec, lrd, link, fup, poff, fileA, snap, faults, hist>>

\* a table's flush persists its rows together with its per-source offsets
FFlush(f, t) ==
  /\ fup[f] /\ memA[f][t] # {}
  /\ fileA' = [fileA EXCEPT ![f][t] = @ \cup memA[f][t]]
  /\ memA' = [memA EXCEPT ![f][t] = {}]
  /\ poff' = [poff EXCEPT ![f][t] = toff[f][t]]
  /\ H([a |-> "Flush", f |-> f, t |-> t])
  /\ UNCHANGED <<lwal, lup, spec, lrd, q, link, fup, toff, earliest, snap, dups, faults>>

Cut(l, f) ==
  /\ link[l][f] /\ faults < MaxFaults
  /\ link' = [link EXCEPT ![l][f] = FALSE]
  /\ q' = [q EXCEPT ![l][f] = <<>>]
  /\ faults' = faults + 1
  /\ H([a |-> "Cut", f |-> f, l |-> l])
  /\ UNCHANGED <<lwal, lup, spec, lrd, fup, toff, poff, memA, fileA, earliest, snap, dups>>

FCrash(f) ==
  /\ fup[f] /\ faults < MaxFaults
  /\ fup' = [fup EXCEPT ![f] = FALSE]
  /\ link' = [l \in Leaders |-> [link[l] EXCEPT ![f] = FALSE]]
  /\ q' = [l \in Leaders |-> [q[l] EXCEPT ![f] = <<>>]]
  /\ memA' = [memA EXCEPT ![f] = [t \in Tables |-> {}]]
  /\ faults' = faults + 1
  /\ H([a |-> "CrashFollower", f |-> f])
  /\ UNCHANGED <<lwal, lup, spec, lrd, toff, poff, fileA, earliest, snap, dups>>

FRestart(f) ==
  /\ ~fup[f]
  /\ fup' = [fup EXCEPT ![f] = TRUE]
  /\ toff' = [toff EXCEPT ![f] = poff[f]]
  /\ earliest' = [earliest EXCEPT ![f] = [l \in Leaders |-> MinSet({poff[f][t][l] : t \in Tables})]]
  /\ H([a |-> "RestartFollower", f |-> f])
  /\ UNCHANGED <<lwal, lup, spec, lrd, q, link, poff, memA, fileA, snap, dups, faults>>

\* a copy of the follower's directory taken while it runs, restored while it is down
FSnapshot(f) ==
  /\ fup[f] /\ ~snap[f].has /\ faults < MaxFaults
  /\ snap' = [snap EXCEPT ![f] = [has |-> TRUE, poff |-> poff[f], fileA |-> fileA[f]]]
  /\ H([a |-> "SnapshotFollower", f |-> f])
  /\ UNCHANGED <<lwal, lup, spec, lrd, q, link, fup, toff, poff, memA, fileA, earliest, dups, faults>>
FRestore(f) ==
  /\ ~fup[f] /\ snap[f].has
  /\ poff' = [poff EXCEPT ![f] = snap[f].poff]
  /\ fileA' = [fileA EXCEPT ![f] = snap[f].fileA]
  /\ snap' = [snap EXCEPT ![f] = [has |-> FALSE]]
  /\ H([a |-> "RestoreFollower", f |-> f])
  /\ UNCHANGED <<lwal, lup, spec, lrd, q, link, fup, toff, memA, earliest, dups, faults>>

LCrash(l) ==
  /\ lup[l] /\ faults < MaxFaults
  /\ lup' = [lup EXCEPT ![l] = FALSE]
  /\ link' = [link EXCEPT ![l] = [f \in Followers |-> FALSE]]
  /\ q' = [q EXCEPT ![l] = [f \in Followers |-> <<>>]]
  /\ spec' = [spec EXCEPT ![l] = [f \in Followers |-> [t \in Tables |-> -1]]]
  /\ lrd' = [lrd EXCEPT ![l] = 0]
  /\ faults' = faults + 1
  /\ H([a |-> "RestartLeader", l |-> l])
  /\ UNCHANGED <<lwal, fup, toff, poff, memA, fileA, earliest, snap, dups>>
LRestart(l) ==
  /\ ~lup[l]
  /\ lup' = [lup EXCEPT ![l] = TRUE]
  /\ UNCHANGED <<lwal, spec, lrd, q, link, fup, toff, poff, memA, fileA, earliest, snap, dups, faults, hist>>

\* let everything in flight arrive (the harness waits for exact quiescence)
Settle ==
  /\ hist # <<>> /\ hist[Len(hist)].a # "Settle"
  /\ H([a |-> "Settle"])
  /\ UNCHANGED <<lwal, lup, spec, lrd, q, link, fup, toff, poff, memA, fileA, earliest, snap, dups, faults>>

Next ==
  \/ \E l \in Leaders : LInsert(l) \/ LProcess(l) \/ LCrash(l) \/ LRestart(l)
  \/ \E l \in Leaders, f \in Followers : Connect(f, l) \/ Deliver(l, f) \/ Cut(l, f)
  \/ \E f \in Followers : FCrash(f) \/ FRestart(f) \/ FSnapshot(f) \/ FRestore(f)
  \/ \E f \in Followers, t \in Tables : FFlush(f, t)
  \/ Settle

Spec == Init /\ [][Next]_vars

----------------------------------------------------------------------------
Routed(f, t) == UNION {{<<l, i>> : i \in {j \in 1..Len(lwal[l]) : Accepts(f, t, lwal[l][j])}} : l \in Leaders}
Have(f, t) == memA[f][t] \cup fileA[f][t]

\* C12: no point is applied twice by a follower table
NoDuplicate == dups = 0
\* nothing a follower holds was routed elsewhere or rejected
OnlyRouted == \A f \in Followers, t \in Tables : Have(f, t) \subseteq Routed(f, t)
\* persisted rows and persisted offsets move in lock step
Persisted == \A f \in Followers, t \in Tables :
                fileA[f][t] = {r \in Routed(f, t) : r[2] <= poff[f][t][r[1]]}
Quiescent == /\ \A l \in Leaders : lup[l] /\ lrd[l] = Len(lwal[l])
             /\ \A f \in Followers : fup[f]
             /\ \A l \in Leaders, f \in Followers : link[l][f] /\ q[l][f] = <<>>
\* once all nodes are up and caught up, every follower table holds exactly the
\* accepted points routed to its partition; redundant followers are equal
Converged == Quiescent => \A f \in Followers, t \in Tables : Have(f, t) = Routed(f, t)

\* printed once per simulated behaviour, at its last state (the depth bound, or a
\* state in which nothing is left to do)
Emit == (TLCGet("level") = Depth \/ ~ENABLED Next) => PrintT(<<"ZVSIM", ToJson(hist)>>)
=============================================================================
