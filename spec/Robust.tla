------------------------------- MODULE Robust -------------------------------
(***************************************************************************)
(* C16: malformed client input yields an error, never a crash or a stalled  *)
(* pipeline.                                                                 *)
(*                                                                           *)
(* The input space is abstract: a statement is a kind, for SELECT a base     *)
(* shape and up to two malformation operators; an insert payload is a class  *)
(* of dimension / value maps or raw bytes, submitted through one of the      *)
(* entry points.  lib/robust_checks.py renders every abstract input as       *)
(* several concrete strings / payloads and zvrobust submits them to the real *)
(* sql.Parse, DB.Query (planner) + Iterate, DB.Insert / InsertRaw, the HTTP  *)
(* insert handler and the rpc server.                                        *)
(*                                                                           *)
(* The state machine says what must survive: whatever is submitted, the      *)
(* node stays alive and its ingest pipeline keeps running, so that every     *)
(* valid point inserted afterwards is reflected by the next probe.           *)
(***************************************************************************)
EXTENDS Naturals, Sequences, FiniteSets, SequencesExt, TLC, Json, IOUtils

CONSTANTS MaxSteps,      \* bound on a session's length (state machine)
          Sample, Offset \* thinning of the two-operator SELECT inputs (export)

Kinds == {"select", "insert", "update", "delete", "union", "set", "show", "ddl", "empty", "garbage", "multi"}
Bases == {"plain", "grouped", "timerange", "having", "fromsub", "insub", "crosstab", "dimfuncs", "shift", "percentile",
          "bounded_if", "order_limit", "stride"}
Ops == {"drop_from", "drop_select", "dup_where", "reorder", "truncate_half", "truncate_tail", "unbalanced_open", "unbalanced_close",
        "unknown_table", "unknown_field", "unknown_func", "arity_less", "arity_more", "argtype_string", "argtype_field", "argtype_star",
        "bad_duration", "bad_time", "deep_nesting", "keyword_ident", "quote_unclosed", "quote_escape", "huge_number", "negative_limit", "unicode",
        "control_bytes", "stmt_sep", "comment", "comment_quote", "empty_in", "nested_aggregate", "agg_in_where", "dim_in_select", "alias_clash",
        "zero_period", "odd_period", "lua_scalar", "subquery_in_select", "join", "star_args"}

SelectInputs == {[kind |-> "select", base |-> b, ops |-> <<o>>] : b \in Bases, o \in Ops \cup {"none"}}
                \cup {[kind |-> "select", base |-> b, ops |-> <<o1, o2>>] : b \in Bases, o1 \in Ops, o2 \in Ops}
OtherInputs == {[kind |-> k, base |-> b, ops |-> <<>>] : k \in Kinds \ {"select"}, b \in {"v1", "v2", "v3"}}

Classes == {"valid", "empty_vals", "empty_dims", "nil_maps", "nil_dim", "nested_dim", "bool_val", "string_val", "nil_val",
            "empty_array", "mixed_array", "string_array", "nan", "inf", "huge_array", "nested_val", "time_val", "bytes_dim",
            "empty_key", "long_key", "many_dims", "zero_ts", "old_ts", "ancient_ts", "future_ts", "far_future", "unknown_stream", "upper_stream",
            "raw_garbage", "raw_truncated", "raw_empty", "raw_swapped", "raw_lenbomb"}
Via == {"embedded", "raw", "http", "rpc"}
RawOnly == {"raw_garbage", "raw_truncated", "raw_empty", "raw_swapped", "raw_lenbomb"}
Payloads == {[class |-> c, via |-> v] : c \in Classes, v \in Via} \
            ({[class |-> c, via |-> v] : c \in RawOnly, v \in Via \ {"raw"}}
             \cup {[class |-> c, via |-> "raw"] : c \in Classes \ (RawOnly \cup {"valid", "empty_vals", "empty_dims", "zero_ts"})})

\* --- the state machine --------------------------------------------------------
VARIABLES alive,     \* the process has not crashed
          running,   \* the ingest pipeline of the table still consumes its stream
          valid,     \* valid points inserted so far
          seen,      \* valid points reflected by the last probe
          steps
vars == <<alive, running, valid, seen, steps>>

Init == alive = TRUE /\ running = TRUE /\ valid = 0 /\ seen = 0 /\ steps = 0

\* Any input may be answered by an error or by a plan / an accepted or skipped
\* point; what it may not do is change alive or running.
Submit == /\ steps < MaxSteps /\ alive
          /\ steps' = steps + 1
          /\ UNCHANGED <<alive, running, valid, seen>>
InsertValid == /\ steps < MaxSteps /\ alive
               /\ valid' = valid + 1 /\ steps' = steps + 1
               /\ UNCHANGED <<alive, running, seen>>
\* a probe after ingestion has caught up reflects every valid point
Probe == /\ steps < MaxSteps /\ alive /\ running
         /\ seen' = valid /\ steps' = steps + 1
         /\ UNCHANGED <<alive, running, valid>>
Next == Submit \/ InsertValid \/ Probe
Spec == Init /\ [][Next]_vars

Robust == alive /\ running
ProbeExact == [][seen' # seen => seen' = valid]_vars

\* --- export of the input space ----------------------------------------------
TwoOp == SelectSeq(SetToSeq({i \in SelectInputs : Len(i.ops) = 2}), LAMBDA x : TRUE)
Thinned == {TwoOp[j] : j \in {k \in DOMAIN TwoOp : k % Sample = Offset % Sample}}
SqlOut == SetToSeq({i \in SelectInputs : Len(i.ops) = 1} \cup OtherInputs \cup Thinned)
PayOut == SetToSeq(Payloads)
=============================================================================
