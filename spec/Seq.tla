--------------------------------- MODULE Seq ---------------------------------
(***************************************************************************)
(* Stored series as the property statements see them (C05, C06, C07): a    *)
(* series covers `len' consecutive periods ending at period `until'; the    *)
(* periods in `set' carry a value.  Periods are numbered by their end       *)
(* (period p covers (p-1, p] in units of the resolution); bounds are given  *)
(* in half periods so that they can fall between period ends.               *)
(***************************************************************************)
EXTENDS Integers, FiniteSets, Sequences

Series(maxUntil, maxLen) ==
  {[until |-> u, len |-> n, set |-> s] :
      u \in 1..maxUntil, n \in 0..maxLen, s \in SUBSET (1..maxUntil)} 

WellFormed(S) == S.len <= S.until /\ S.set \subseteq ((S.until - S.len + 1)..S.until)

\* Merging two series: every period carries the contributions of both
MergedSet(A, B) == A.set \cup B.set

\* Restricting a series to (asOf, until], bounds in half periods, 0 = none:
\* a period p lies inside iff it begins at or after asOf and ends at or before
\* until; it lies outside iff it ends at or before asOf or begins at or after
\* until; a period that straddles a bound may go either way
Inside(p, asOf, until)  == (asOf = 0 \/ 2 * p - 2 >= asOf) /\ (until = 0 \/ 2 * p <= until)
Outside(p, asOf, until) == (asOf # 0 /\ 2 * p <= asOf) \/ (until # 0 /\ 2 * p - 2 >= until)
=============================================================================
