---------------------------- MODULE MCPipeline ----------------------------
(* The bounded instance of Pipeline that TLC checks exhaustively. *)
EXTENDS Pipeline
\* Model checking instance: the stream of source s has the entries 1 .. StreamLen, a
\* table reads them in order, and accepts the ones in Keyed.
CONSTANTS
  \* @type: Int;
  StreamLen,
  \* @type: Set(<<Str, Str, Int>>);
  Keyed,
  \* @type: Int;
  MaxCrashes
VARIABLE
  \* @type: Int;
  crashes
mvars == <<pvars, crashes>>
MCInit == PInit /\ crashes = 0
MCNext ==
  \/ /\ \E t \in Tables :
          \/ \E s \in Sources : rd[t][s] < StreamLen /\ Read(t, s, rd[t][s] + 1)
          \/ (pend[t].off # 0 /\ Offer(t, <<t, pend[t].src, pend[t].off>> \in Keyed))
          \/ (pend[t].offered /\ Verdict(t))
          \/ Apply(t) \/ FlushBegin(t) \/ FlushTemp(t) \/ FlushRenamed(t) \/ FlushSwapped(t) \/ FlushDone(t)
          \/ OffWrite(t) \/ Open(t)
     /\ UNCHANGED crashes
  \/ /\ crashes < MaxCrashes /\ crashes' = crashes + 1
     /\ \E t \in Tables : Crash(t)
MCSpec == MCInit /\ [][MCNext]_mvars

\* what is durable never runs ahead of what the memstore has applied
DurableBehind == \A t \in Tables, s \in Sources :
                   up[t] => (durFile[t].offs[s] <= applied[t][s] /\ durOff[t][s] <= applied[t][s])
\* C02 at the level of offsets: whatever instant the process dies, the table
\* resumes exactly where its durable rows end - the newest file holds every
\* accepted entry up to the resume point and none after it
Recoverable == \A t \in Tables :
                 durFile[t].set = {e \in Sources \X (1..StreamLen) : <<t, e[1], e[2]>> \in Keyed /\ e[2] <= Rec(t)[e[1]]}
\* the rows a scan can see (file store + memstore) are the accepted entries applied so far, each once
Visible == \A t \in Tables : up[t] =>
             cur[t].set \cup mem[t] = {e \in Sources \X (1..StreamLen) : <<t, e[1], e[2]>> \in Keyed /\ e[2] <= applied[t][e[1]]}
             /\ cur[t].set \cap mem[t] = {}
=============================================================================
