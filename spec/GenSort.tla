------------------------------- MODULE GenSort -------------------------------
(***************************************************************************)
(* C09: ORDER BY / LIMIT / OFFSET over flat rows.  A row is                 *)
(* [ts, d, f, g]: timestamp, one dimension (0 = the row does not have it,   *)
(* missing sorts first), two fields.  A key list is a sequence of           *)
(* [k, desc] with k in {"_time", "d", "f", "g"}.  The ordered result is     *)
(* defined by its sequence of key vectors (unique even with ties); LIMIT n  *)
(* OFFSET m (n = 0: no limit) returns rows m+1 .. m+n of it.                *)
(* TLC enumerates row multisets, key lists and (n, m) and writes the        *)
(* expected key-vector sequence; zvpure runs core.Sort/Offset/Limit.        *)
(***************************************************************************)
EXTENDS Integers, Sequences, FiniteSets, SequencesExt, Json, IOUtils, TLC

CONSTANTS MaxRows, MaxKeys, Sample

RowDom == [ts : 1..2, d : 0..2, f : 0..1, g : 0..1]
Keys == {"_time", "d", "f", "g"}

KeyVal(r, k) == CASE k = "_time" -> r.ts [] k = "d" -> r.d [] k = "f" -> r.f [] k = "g" -> r.g
\* the key vector of a row: descending keys are negated so that the
\* lexicographic "<" on vectors is the requested order
Vec(r, ks) == [i \in DOMAIN ks |-> IF ks[i].desc THEN -KeyVal(r, ks[i].k) ELSE KeyVal(r, ks[i].k)]

RECURSIVE LexLess(_, _)
LexLess(a, b) == IF a = <<>> THEN FALSE
                 ELSE IF Head(a) < Head(b) THEN TRUE
                 ELSE IF Head(a) > Head(b) THEN FALSE
                 ELSE LexLess(Tail(a), Tail(b))

\* sequences of rows up to MaxRows (order of arrival matters to a sort that is
\* not stable, so sequences rather than multisets), thinned by Sample
RECURSIVE RowSeqs(_)
RowSeqs(n) == IF n = 0 THEN {<<>>} ELSE RowSeqs(n - 1) \cup {Append(s, r) : s \in {t \in RowSeqs(n - 1) : Len(t) = n - 1}, r \in RowDom}

RECURSIVE KeyLists(_)
KeyLists(n) == IF n = 0 THEN {<<>>}
               ELSE KeyLists(n - 1) \cup
                    {Append(s, [k |-> k, desc |-> d]) : s \in {t \in KeyLists(n - 1) : Len(t) = n - 1 /\ \A i \in DOMAIN t : TRUE},
                                                         k \in Keys, d \in BOOLEAN}
NoRepeat(ks) == \A i, j \in DOMAIN ks : i # j => ks[i].k # ks[j].k

Expected(rows, ks, n, m) ==
  LET vecs == [i \in DOMAIN rows |-> Vec(rows[i], ks)]
      sorted == IF ks = <<>> THEN vecs ELSE SortSeq(vecs, LexLess)
      N == Len(rows)
      lo == m + 1
      hi == IF n = 0 THEN N ELSE IF m + n < N THEN m + n ELSE N
  IN IF lo > N THEN <<>> ELSE SubSeq(sorted, lo, hi)

Thin(S, k) == LET s == SetToSeq(S) IN {s[i] : i \in {j \in DOMAIN s : j % k = 0}}
RowSample == Thin(RowSeqs(MaxRows), Sample) \cup RowSeqs(2)
KeySample == {k \in KeyLists(MaxKeys) : NoRepeat(k)}
NM == {<<0, 0>>, <<1, 0>>, <<2, 1>>, <<0, 1>>, <<MaxRows + 1, 0>>, <<1, MaxRows>>, <<2, MaxRows + 1>>, <<0, MaxRows + 1>>, <<MaxRows, 2>>}

Cases == {[rows |-> rs, keys |-> ks, n |-> nm[1], m |-> nm[2]] : rs \in RowSample, ks \in KeySample, nm \in NM}

Out == LET S == SetToSeq(Cases)
       IN [i \in DOMAIN S |-> [kind |-> "sort", rows |-> S[i].rows, keys |-> S[i].keys, n |-> S[i].n, m |-> S[i].m,
                                exp |-> Expected(S[i].rows, S[i].keys, S[i].n, S[i].m)]]

ASSUME /\ ndJsonSerialize(IOEnv.ZV_OUT, Out)
       /\ PrintT(<<"ZVGEN", Len(Out), Cardinality(Cases)>>)

VARIABLE dummy
Init == dummy = 0
Next == UNCHANGED dummy
=============================================================================
