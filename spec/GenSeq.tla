------------------------------- MODULE GenSeq -------------------------------
(* TLC as an evaluator: every pair of well-formed series in a bounded window *)
(* with every truncation bound (merge cases), and every series with every    *)
(* (asOf, until) pair (truncate cases), written as JSON for zvpure, which    *)
(* builds real encoding.Sequence values, runs Merge / Truncate and compares. *)
EXTENDS Seq, Json, IOUtils, SequencesExt, TLC

CONSTANTS MaxUntil, MaxLen, Exprs, Sample

All == {S \in Series(MaxUntil, MaxLen) : WellFormed(S)}
ToRec(S) == [until |-> S.until, len |-> S.len, set |-> SetToSeq(S.set)]

MergeCases == {[kind |-> "merge", sa |-> ToRec(A), sb |-> ToRec(B), cut |-> c, ex |-> x] :
                  A \in All, B \in All, c \in 0..(2 * MaxUntil + 1), x \in Exprs}
TruncCases == {[kind |-> "trunc", sa |-> ToRec(A), asOf |-> a, until |-> u, ex |-> x] :
                  A \in All, a \in 0..(2 * MaxUntil + 1), u \in 0..(2 * MaxUntil + 1), x \in Exprs}

Pick(S) == LET s == SetToSeq(S) IN SelectSeq([i \in DOMAIN s |-> IF i % Sample = 0 THEN s[i] ELSE <<>>], LAMBDA r : r # <<>>)

ASSUME /\ ndJsonSerialize(IOEnv.ZV_OUT, Pick(MergeCases) \o Pick(TruncCases))
       /\ PrintT(<<"ZVGEN", Cardinality(All), Cardinality(MergeCases), Cardinality(TruncCases)>>)

VARIABLE dummy
Init == dummy = 0
Next == UNCHANGED dummy
=============================================================================
