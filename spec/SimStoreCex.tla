---------------------------- MODULE SimStoreCex ----------------------------
(* SimStore explored breadth-first with the history hidden from the state   *)
(* fingerprint: the first state violating a property prints the (shortest)  *)
(* action sequence leading to it, which is then replayed on the real code.  *)
EXTENDS SimStore

\* the only thing about the history that a goal asks: was table t altered
\* before the last start and not since (its newest file then carries a field
\* list that differs from the one the process was started with)
AlteredWhileDown(t) ==
  LET starts == {j \in DOMAIN hist : hist[j].a = "Start"}
  IN IF starts = {} THEN FALSE
     ELSE LET last == CHOOSE j \in starts : \A k \in starts : k <= j
          IN /\ \E i \in 1..last : hist[i].a = "AlterFields" /\ hist[i].t = t
             /\ \A i \in last..Len(hist) : hist[i].a # "AlterFields" \/ hist[i].t # t
SimView == <<vars, crashes, nalt, scans, nscans, [t \in Tables |-> AlteredWhileDown(t)]>>

Cex(name, ok) == ok \/ (PrintT(<<"ZVCEX", ToJson(hist)>>) /\ FALSE)
Cex_ExactlyOnce    == Cex("ExactlyOnce", ExactlyOnce)
Cex_AtMostOnce     == Cex("AtMostOnce", AtMostOnce)
Cex_MemLockStep    == Cex("MemLockStep", MemLockStep)
Cex_DiskLockStep   == Cex("DiskLockStep", DiskLockStep)
Cex_OffsetsOrdered == Cex("OffsetsOrdered", OffsetsOrdered)

----------------------------------------------------------------------------
(* Coverage goals: situations of the protocol that the replay must reach on  *)
(* the real code.  For each goal TLC's breadth-first search returns the      *)
(* shortest behaviour reaching it (as the "counterexample" of its negation); *)
(* the harness replays it and then lets the system settle.                   *)
NewestOff(t) == IF Newest(t) = 0 THEN 0 ELSE disk[t][Newest(t)].off
Goal(name) ==
  CASE name = "StaleOffsetFile" ->   \* restart with an offset file older than the newest file
         \E t \in Tables : ~up /\ offFile[t] > 0 /\ Newest(t) # 0 /\ NewestOff(t) > offFile[t]
    [] name = "OffsetFileAhead" ->   \* restart with an offset file newer than the newest file
         \E t \in Tables : ~up /\ Newest(t) # 0 /\ offFile[t] > NewestOff(t)
    [] name = "OffsetFileOnly" ->
         \E t \in Tables : ~up /\ Newest(t) = 0 /\ offFile[t] > 0 /\ Len(wal) > offFile[t]
    [] name = "CrashTempWritten" ->
         \E t \in Tables : ~up /\ fl[t].pc = "temp" /\ Newest(t) # 0
    [] name = "CrashRenamedNotSwapped" ->
         \E t \in Tables : ~up /\ fl[t].pc = "renamed" /\ Cardinality(DOMAIN disk[t]) >= 2
    [] name = "CrashInFlight" ->
         \E t \in Tables : ~up /\ pend[t] # <<>> /\ Newest(t) # 0
    [] name = "CrashMemOverFile" ->
         \E t \in Tables : ~up /\ Newest(t) # 0 /\ mem[t].cells # EmptyBag /\ mem[t].off > NewestOff(t)
    [] name = "SecondCrash" ->
         crashes = 2 /\ ~up /\ \E t \in Tables : Newest(t) # 0 /\ rd[t] > NewestOff(t)
    [] name = "CleanCloseReopen" ->
         crashes >= 1 /\ ~up /\ \A t \in Tables : mem[t].cells = EmptyBag /\ Len(hist) > 0 /\ hist[Len(hist)].a = "Close"
                      /\ \E u \in Tables : Newest(u) # 0
    [] name = "RawFlushOldLayout" ->  \* C15: a raw-eligible flush over a file written with another field list
         \E t \in Tables : /\ up /\ fl[t].pc = "begun" /\ ~fl[t].noRaw /\ cur[t] # 0
                            /\ disk[t][cur[t]].flds # mem[t].flds
                            /\ KeysOf(FileCells(t)) \ KeysOf(mem[t].cells) # {}
    [] name = "RawFlushOldLayoutAfterRestart" ->
         \* the table was altered while its data was on disk, the process restarted
         \* with the new schema, and now an ordinary flush runs over the old file
         \E t \in Tables : /\ up /\ crashes >= 1 /\ fl[t].pc = "begun" /\ ~fl[t].noRaw /\ cur[t] # 0
                            /\ disk[t][cur[t]].flds # mem[t].flds
                            /\ KeysOf(FileCells(t)) \ KeysOf(mem[t].cells) # {}
                            /\ AlteredWhileDown(t)
    [] name = "AlterWithDataInMemory" ->
         \E t \in Tables : up /\ fl[t].pc = "pre" /\ cur[t] # 0
    [] name = "TruncatingFlushOverExpired" ->  \* C14
         \E t \in Tables : /\ up /\ fl[t].pc = "begun" /\ fl[t].noRaw
                            /\ \E e \in DOMAIN FileCells(t) : ~Live(t, e[2], clock)
    [] name = "RawFlushOverExpired" ->
         \E t \in Tables : /\ up /\ fl[t].pc = "begun" /\ ~fl[t].noRaw
                            /\ \E e \in DOMAIN FileCells(t) : ~Live(t, e[2], clock) /\ e[1] \notin KeysOf(mem[t].cells)
    [] name = "MergeExpiredWithLive" ->
         \E t \in Tables : /\ up /\ fl[t].pc = "begun"
                            /\ \E e \in DOMAIN FileCells(t) : ~Live(t, e[2], clock) /\ e[1] \in KeysOf(mem[t].cells)
    [] name = "LatePointInsideFlushedSeries" ->   \* C03: memstore period strictly inside the file row's range
         \E t \in Tables : /\ up /\ fl[t].pc = "begun"
                            /\ \E m \in DOMAIN mem[t].cells :
                                 /\ \E f \in DOMAIN FileCells(t) : f[1] = m[1] /\ f[2] < m[2]
                                 /\ \E f \in DOMAIN FileCells(t) : f[1] = m[1] /\ f[2] > m[2]
    [] name = "FlushedPointInsideMemSeries" ->
         \E t \in Tables : /\ up /\ fl[t].pc = "begun"
                            /\ \E f \in DOMAIN FileCells(t) :
                                 /\ \E m \in DOMAIN mem[t].cells : f[1] = m[1] /\ m[2] < f[2]
                                 /\ \E m \in DOMAIN mem[t].cells : f[1] = m[1] /\ m[2] > f[2]

CONSTANT GoalName
Cex_Goal == Cex("goal", ~Goal(GoalName))
=============================================================================
