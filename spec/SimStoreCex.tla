---------------------------- MODULE SimStoreCex ----------------------------
(* SimStore explored breadth-first with the history hidden from the state   *)
(* fingerprint: the first state violating a property prints the (shortest)  *)
(* action sequence leading to it, which is then replayed on the real code.  *)
EXTENDS SimStore

SimView == <<vars, crashes, nalt, scans, nscans>>

Cex(name, ok) == ok \/ (PrintT(<<"ZVCEX", ToJson(hist)>>) /\ FALSE)
Cex_ExactlyOnce    == Cex("ExactlyOnce", ExactlyOnce)
Cex_AtMostOnce     == Cex("AtMostOnce", AtMostOnce)
Cex_MemLockStep    == Cex("MemLockStep", MemLockStep)
Cex_DiskLockStep   == Cex("DiskLockStep", DiskLockStep)
Cex_OffsetsOrdered == Cex("OffsetsOrdered", OffsetsOrdered)
=============================================================================
