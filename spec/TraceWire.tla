------------------------------ MODULE TraceWire ------------------------------
(***************************************************************************)
(* Trace validation for Wire: the messages of every remote query recorded   *)
(* by zvwire on both sides of the real gRPC transport (follower: before a   *)
(* message is handed to the rpc client; leader: when the rpc server's       *)
(* handler passes it on), merged by their sequence number.  A "Reset" line  *)
(* starts the next remote query.                                            *)
(***************************************************************************)
EXTENDS Wire, Json, IOUtils, FiniteSets, FiniteSetsExt

Trace == ndJsonDeserialize(IOEnv.ZV_TRACE)

VARIABLES l, ses, fails, viol
tvars == <<vars, l, ses, fails, viol>>

Line == Trace[l]
IsEv(s, k) == l <= Len(Trace) /\ Line.a = "Msg" /\ Line.side = s /\ Line.kind = k /\ l' = l + 1

TraceInit == Init /\ l = 1 /\ ses = "" /\ fails = {} /\ viol = {}

TReset == /\ l <= Len(Trace) /\ Line.a = "Reset" /\ l' = l + 1 /\ ses' = Line.ses
          /\ fst' = "idle" /\ lst' = "idle" /\ chan' = <<>> /\ sent' = <<>> /\ got' = <<>>
          /\ ferr' = FALSE /\ lerr' = FALSE /\ sql' = [sent |-> "", rcvd |-> ""] /\ lstop' = FALSE
          /\ UNCHANGED fails
Same == UNCHANGED <<ses, fails>>
TLQuery == IsEv("leader", "query") /\ LQuery(Line.d) /\ Same
TFQuery == IsEv("follower", "query") /\ FQuery(Line.d) /\ Same
TFFields == IsEv("follower", "fields") /\ FFields(Line.d) /\ Same
TFRow == IsEv("follower", "row") /\ FRow(Line.d) /\ Same
TFEnd == IsEv("follower", "end") /\ FEnd(Line.d = "error") /\ Same
\* what the leader passes on is the head of the channel, unchanged
TLFields == IsEv("leader", "fields") /\ LFields /\ Head(chan).d = Line.d /\ Same
TLRow == IsEv("leader", "row") /\ LRow /\ Head(chan).d = Line.d /\ Same
\* the handler's return: it has the closing message and reports the follower's error
TLStop == IsEv("leader", "stop") /\ ConsumerStops /\ Same
TLEnd == IsEv("leader", "end") /\ (LEnd \/ LFail \/ LStop) /\ lerr' = (Line.d = "error") /\ Same

Normal == TLStop \/ TReset \/ TLQuery \/ TFQuery \/ TFFields \/ TFRow \/ TFEnd \/ TLFields \/ TLRow \/ TLEnd

NextReset == LET S == {j \in (l + 1)..Len(Trace) : Trace[j].a = "Reset"}
             IN IF S = {} THEN Len(Trace) + 1 ELSE Min(S)
TSkip == /\ l <= Len(Trace) /\ ~ENABLED Normal
         /\ fails' = fails \cup {[ses |-> ses, at |-> l, fst |-> fst, lst |-> lst, inflight |-> Len(chan)]}
         /\ l' = NextReset
         /\ UNCHANGED <<vars, ses>>

Bad == {n \in {"Lossless", "WellFormed", "ErrorReported", "QueryIntact"} :
          \/ (n = "Lossless" /\ ~Lossless') \/ (n = "WellFormed" /\ ~WellFormed')
          \/ (n = "ErrorReported" /\ ~ErrorReported') \/ (n = "QueryIntact" /\ ~QueryIntact')}
TraceNext == (Normal /\ viol' = viol \cup {[ses |-> ses', inv |-> n, at |-> l] : n \in Bad}) \/ (TSkip /\ UNCHANGED viol)
TraceSpec == TraceInit /\ [][TraceNext]_tvars

Report == PrintT(<<"ZVTRACE", ToJson([lines |-> Len(Trace), fails |-> fails, viol |-> viol])>>)
Done == (l = Len(Trace) + 1) => Report
=============================================================================
