------------------------------ MODULE MCStore ------------------------------
(* Model-checking instance of Store: bounded exhaustive exploration of the  *)
(* ingest / flush / offset-file / crash / recovery protocol (C01 C02 C03).  *)
EXTENDS Store

CONSTANTS
  Menu,        \* Seq of points: WAL entry i is Menu[i] (id = i)
  MaxFlushes,  \* bound on completed + started data flushes (file ids)
  MaxCrashes,
  Sorted       \* set of BOOLEAN: which kinds of forced flush to explore

VARIABLE crashes

mcvars == <<vars, crashes>>

MCInit == Init /\ crashes = 0

StepNoCrash ==
  \/ /\ Len(wal) < Len(Menu)
     /\ Insert(Menu[Len(wal) + 1])
  \/ \E t \in Tables :
       \/ Decide(t)
       \/ Apply(t)
       \/ /\ nextFile + Cardinality({u \in Tables : fl[u].pc \in {"begun", "temp"}}) <= MaxFlushes
          /\ \E s \in Sorted : FlushBegin(t, s)
       \/ FlushTemp(t)
       \/ FlushRename(t)
       \/ FlushSwap(t)
       \/ OffWrite(t)
       \/ RemoveOld(t)

MCNext ==
  \/ StepNoCrash /\ UNCHANGED crashes
  \/ /\ crashes < MaxCrashes
     /\ Crash
     /\ crashes' = crashes + 1
  \/ Restart(InitWhere, InitFlds) /\ UNCHANGED crashes

MCSpec == MCInit /\ [][MCNext]_mcvars

----------------------------------------------------------------------------
\* C02/C01: once ingestion has caught up, every acknowledged insert is
\* reflected exactly once in every table
ExactlyOnce == \A t \in Tables : CaughtUp(t) => View(t) = ExpectedS(t, Len(wal))

\* in-flight inserts: never more than once, in any state
AtMostOnce ==
  \A t \in Tables : up =>
    \A e \in DOMAIN View(t) :
       /\ e[4] \in 1..Len(wal)
       /\ View(t)[e] <= Mains(wal[e[4]]) + Extras(wal[e[4]])

\* offsets and rows move in lock step: what a store holds is exactly the
\* outcome of the WAL prefix its offset names
\* (while the inserts of entry mem.off are being applied one by one, the
\* view holds the prefix before it plus the part already applied)
RECURSIVE PendCells(_, _)
PendCells(t, s) ==
  IF s = <<>> THEN EmptyBag
  ELSE LET h == Head(s) IN
       (IF h.data THEN Times(MainCells(t, wal[h.idx], flds[t]), h.main)
                        (+) Times(ExtraCells(t, wal[h.idx], flds[t]), h.extra)
        ELSE EmptyBag) (+) PendCells(t, Tail(s))
SamePend(t) == SelectSeq(pend[t], LAMBDA h : h.idx = mem[t].off)
AppliedPart(t) == ExpectedS(t, mem[t].off) (-) PendCells(t, SamePend(t))

MemLockStep  == \A t \in Tables : up => View(t) = AppliedPart(t)
\* C01 as stated: every value of every accepted point exactly once
ViewCorrect == \A t \in Tables : CaughtUp(t) => View(t) = Expected(t, Len(wal))
DiskLockStep == \A t \in Tables : \A i \in DOMAIN disk[t] :
                   OnFields(disk[t][i].cells, flds[t]) = ExpectedS(t, disk[t][i].off)
OffsetsOrdered == \A t \in Tables : up => /\ FileOff(t) <= mem[t].off
                                          /\ mem[t].off <= rd[t]
                                          /\ offFile[t] <= rd[t]

\* C03: no step of the flush / offset-file / old-file protocol changes what
\* a memstore-inclusive query returns, and right after the swap the disk-only
\* view equals it
FlushStep ==
  \E t \in Tables : \/ \E s \in BOOLEAN : FlushBegin(t, s)
                    \/ FlushTemp(t) \/ FlushRename(t) \/ FlushSwap(t)
                    \/ OffWrite(t) \/ RemoveOld(t)
FlushInvisible == [][FlushStep => \A t \in Tables : View(t)' = View(t)]_mcvars
DiskEqualsViewAfterSwap ==
  [][\A t \in Tables : FlushSwap(t) => DiskView(t)' = View(t)']_mcvars

\* a clean restart (nothing in flight, everything flushed) keeps the view
CleanRestartKeepsView ==
  \A t \in Tables : (~up /\ mem[t].cells = EmptyBag /\ pend[t] = <<>>)
      => TRUE

Bound == Len(wal) <= Len(Menu)
=============================================================================
