------------------------------ MODULE MCStore ------------------------------
(* Model-checking instance of Store: bounded exhaustive exploration of the  *)
(* ingest / flush / offset-file / crash / recovery protocol (C01 C02 C03).  *)
EXTENDS StoreProps

CONSTANTS
  Menu,        \* Seq of points: WAL entry i is Menu[i] (id = i)
  MaxFlushes,  \* bound on completed + started data flushes (file ids)
  MaxCrashes,
  Sorted       \* set of BOOLEAN: which kinds of forced flush to explore

VARIABLE crashes

mcvars == <<vars, crashes>>

MCInit == Init /\ crashes = 0

StepNoCrash ==
  \/ /\ Len(wal) < Len(Menu)
     /\ Insert(Menu[Len(wal) + 1])
  \/ \E t \in Tables :
       \/ Decide(t)
       \/ Apply(t)
       \/ /\ nextFile + Cardinality({u \in Tables : fl[u].pc \in {"begun", "temp"}}) <= MaxFlushes
          /\ \E s \in Sorted : FlushBegin(t, s)
       \/ FlushTemp(t)
       \/ FlushRename(t)
       \/ FlushSwap(t)
       \/ OffWrite(t)
       \/ RemoveOld(t)

MCNext ==
  \/ StepNoCrash /\ UNCHANGED crashes
  \/ /\ crashes < MaxCrashes
     /\ Crash
     /\ crashes' = crashes + 1
  \/ Start /\ UNCHANGED crashes
  \/ \E t \in Tables : Open(t, InitWhere[t], InitFlds[t]) /\ UNCHANGED crashes

MCSpec == MCInit /\ [][MCNext]_mcvars

----------------------------------------------------------------------------
\* C03: no step of the flush / offset-file / old-file protocol changes what
\* a memstore-inclusive query returns, and right after the swap the disk-only
\* view equals it
FlushStep ==
  \E t \in Tables : \/ \E s \in BOOLEAN : FlushBegin(t, s)
                    \/ FlushTemp(t) \/ FlushRename(t) \/ FlushSwap(t)
                    \/ OffWrite(t) \/ RemoveOld(t)
FlushInvisible == [][FlushStep => \A t \in Tables : View(t)' = View(t)]_mcvars
DiskEqualsViewAfterSwap ==
  [][\A t \in Tables : FlushSwap(t) => DiskView(t)' = View(t)']_mcvars


Bound == Len(wal) <= Len(Menu)
=============================================================================
