------------------------------ MODULE MCStore ------------------------------
(* Model-checking instance of Store: bounded exhaustive exploration of the  *)
(* ingest / flush / offset-file / crash / recovery protocol (C01 C02 C03).  *)
EXTENDS StoreProps

CONSTANTS
  Menu,        \* Seq of points: WAL entry i is Menu[i] (id = i)
  MaxFlushes,  \* bound on completed + started data flushes (file ids)
  MaxCrashes,
  Sorted,      \* set of BOOLEAN: which kinds of forced flush to explore
  FieldMenu,   \* [Tables -> Seq(field list)]: successive definitions applied by Alter
  WhereMenu    \* [Tables -> Seq(where id)]

VARIABLES crashes, nalt

mcvars == <<vars, crashes, nalt>>

MCInit == Init /\ crashes = 0 /\ nalt = [t \in Tables |-> [f |-> 0, w |-> 0]]

StepNoCrash ==
  \/ /\ Len(wal) < Len(Menu)
     /\ Insert(Menu[Len(wal) + 1])
  \/ \E t \in Tables :
       \/ Decide(t)
       \/ Apply(t)
       \/ /\ nextFile + Cardinality({u \in Tables : fl[u].pc \in {"begun", "temp"}}) <= MaxFlushes
          /\ \E s \in Sorted : FlushBegin(t, s)
       \/ FlushTemp(t)
       \/ FlushRename(t)
       \/ FlushSwap(t)
       \/ OffWrite(t)
       \/ RemoveOld(t)

\* the schema in force: what the last Alter applied (kept in where/flds)
MCNext ==
  \/ StepNoCrash /\ UNCHANGED <<crashes, nalt>>
  \/ /\ crashes < MaxCrashes
     /\ Crash
     /\ crashes' = crashes + 1 /\ UNCHANGED nalt
  \/ Start /\ UNCHANGED <<crashes, nalt>>
  \/ \E t \in Tables : Open(t, where[t], flds[t]) /\ UNCHANGED <<crashes, nalt>>
  \/ \E t \in Tables :
        \/ /\ nalt[t].f < Len(FieldMenu[t])
           /\ AlterFields(t, FieldMenu[t][nalt[t].f + 1])
           /\ nalt' = [nalt EXCEPT ![t].f = @ + 1] /\ UNCHANGED crashes
        \/ RSFields(t) /\ UNCHANGED <<crashes, nalt>>
        \/ /\ nalt[t].w < Len(WhereMenu[t])
           /\ AlterWhere(t, WhereMenu[t][nalt[t].w + 1])
           /\ nalt' = [nalt EXCEPT ![t].w = @ + 1] /\ UNCHANGED crashes

MCSpec == MCInit /\ [][MCNext]_mcvars

----------------------------------------------------------------------------
\* C03: no step of the flush / offset-file / old-file protocol changes what
\* a memstore-inclusive query returns, and right after the swap the disk-only
\* view equals it
FlushStep ==
  \E t \in Tables : \/ \E s \in BOOLEAN : FlushBegin(t, s)
                    \/ FlushTemp(t) \/ FlushRename(t) \/ FlushSwap(t)
                    \/ OffWrite(t) \/ RemoveOld(t)
FlushInvisible == [][FlushStep => \A t \in Tables : View(t)' = View(t)]_mcvars
DiskEqualsViewAfterSwap ==
  [][\A t \in Tables : FlushSwap(t) => DiskView(t)' = View(t)']_mcvars


\* C14: no step other than a crash (which loses only what recovery re-reads
\* from the WAL) removes or shrinks a cell of a period that is still inside the
\* retention window; what a truncating flush drops is expired
KeepsLive(t) == \A e \in DOMAIN View(t) :
                   Live(t, e[2], clock') => (e \in DOMAIN View(t)' /\ View(t)'[e] >= View(t)[e])
NeverDropLive == [][(up /\ up') => \A t \in opened \cap opened' : KeepsLive(t)]_mcvars
\* a point is stored only if it was inside the retention window when decided
NeverStoreExpired ==
  [][\A t \in Tables : (Decide(t) /\ Len(pend'[t]) > Len(pend[t]) /\ pend'[t][Len(pend'[t])].data)
        => wal[rd'[t]].ts >= clock - Ret[t]]_mcvars

\* C15: an Alter (either of its two steps) leaves the cells of every field
\* that keeps its identity untouched, and a field it adds starts empty
OnFieldSet(B, F) == [e \in {x \in DOMAIN B : x[3] \in F} |-> B[e]]
AlterStep(t) == flds'[t] # flds[t] \/ mem'[t].flds # mem[t].flds
AlterKeepsRetained ==
  [][\A t \in opened \cap opened' : AlterStep(t) =>
        LET R == Rng(flds[t]) \cap Rng(flds'[t])
        IN OnFieldSet(View(t)', R) = OnFieldSet(View(t), R)]_mcvars
AddedStartEmpty ==
  [][\A t \in opened \cap opened' : flds'[t] # flds[t] =>
        \A e \in DOMAIN View(t)' : e[3] \in Rng(flds[t])]_mcvars
\* stored cells only ever belong to fields of the table's current or a former
\* definition, and a flush or restart never changes a retained field's cells
\* (FlushInvisible covers the flush steps)

Bound == Len(wal) <= Len(Menu)
=============================================================================
