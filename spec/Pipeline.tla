------------------------------ MODULE Pipeline ------------------------------
(***************************************************************************)
(* The ingest pipeline of one table at the level of stream offsets          *)
(* (insert.go processInserts / insert / skip, row_store.go processInserts / *)
(* processFlush / writeOffsets / openRowStore), for any number of sources   *)
(* (a standalone table reads one WAL, source 0; a follower's table receives *)
(* one stream per leader).  spec/Store.tla models the same protocol with    *)
(* the data (points, periods, views) for one source; this module keeps only *)
(* what decides which entries a table holds after a restart:                *)
(*                                                                           *)
(*   table goroutine      Read (tbl.read) -> Offer (rs.offer: the entry, or *)
(*                        only its offset when the table does not accept    *)
(*                        it) -> Verdict (tbl.verdict)                      *)
(*   row-store goroutine  Apply (rs.apply, FIFO: memstore offsets := the    *)
(*                        entry's), a flush in five steps (begin, temp      *)
(*                        file, rename = durable, swap = visible, done), or *)
(*                        - when the memstore is empty but offsets have     *)
(*                        advanced - the offsets alone to a separate file   *)
(*   Crash / Open         volatile state is lost; the table resumes, per    *)
(*                        source, from the later of the newest file's       *)
(*                        offsets and the offset file's                     *)
(*                                                                           *)
(* An entry is a pair <<source, offset>>.  Keyed(e) says whether the table  *)
(* accepts it.                                                               *)
(***************************************************************************)
EXTENDS Integers, Sequences, FiniteSets, TLC

CONSTANTS
  \* @type: Set(Str);
  Tables,
  \* @type: Set(Str);
  Sources

\* (the @type comments are for Apalache, which checks the inductive invariant of spec/apalache/IndPipe.tla)
VARIABLES
  \* @type: Str -> Bool;
  up,       \* [Tables -> BOOLEAN]
  \* @type: Str -> (Str -> Int);
  rd,       \* [Tables -> [Sources -> Int]]   last entry read, per source
  \* @type: Str -> {src: Str, off: Int, offered: Bool};
  pend,     \* [Tables -> [src, off, offered]]  the entry between Read and Verdict (off = 0: none)
  \* @type: Str -> Seq({src: Str, off: Int, key: Bool});
  queue,    \* [Tables -> Seq([src, off, key])]  handed to the row store, not yet applied
  \* @type: Str -> (Str -> Int);
  applied,  \* [Tables -> [Sources -> Int]]   the memstore's offsets
  \* @type: Str -> Set(<<Str, Int>>);
  mem,      \* [Tables -> SUBSET (Sources \X Int)]  accepted entries in the memstore
  \* @type: Str -> Bool;
  offchg,   \* [Tables -> BOOLEAN]   offsets advanced since they were last written
  \* @type: Str -> Str;
  fl,       \* [Tables -> flush phase]
  \* @type: Str -> {offs: Str -> Int, set: Set(<<Str, Int>>)};
  flw,      \* [Tables -> [offs, set]]   what the flush in progress writes
  \* @type: Str -> {offs: Str -> Int, set: Set(<<Str, Int>>)};
  cur,      \* [Tables -> [offs, set]]   the file store scans see
  \* @type: Str -> {offs: Str -> Int, set: Set(<<Str, Int>>)};
  durFile,  \* [Tables -> [offs, set]]   the newest renamed file
  \* @type: Str -> (Str -> Int);
  durOff    \* [Tables -> [Sources -> Int]]  the offset file
pvars == <<up, rd, pend, queue, applied, mem, offchg, fl, flw, cur, durFile, durOff>>

Zero == [s \in Sources |-> 0]
NoPend == [src |-> "", off |-> 0, offered |-> FALSE]
Max2(a, b) == IF a >= b THEN a ELSE b
\* where a table resumes after a restart
Rec(t) == [s \in Sources |-> Max2(durFile[t].offs[s], durOff[t][s])]

PInit ==
  /\ up = [t \in Tables |-> TRUE]
  /\ rd = [t \in Tables |-> Zero] /\ applied = [t \in Tables |-> Zero]
  /\ pend = [t \in Tables |-> NoPend] /\ queue = [t \in Tables |-> <<>>]
  /\ mem = [t \in Tables |-> {}] /\ offchg = [t \in Tables |-> FALSE]
  /\ fl = [t \in Tables |-> "idle"]
  /\ flw = [t \in Tables |-> [offs |-> Zero, set |-> {}]]
  /\ cur = flw /\ durFile = flw
  /\ durOff = [t \in Tables |-> Zero]

\* --- the table's goroutine -------------------------------------------------
Read(t, s, o) ==
  /\ up[t] /\ pend[t].off = 0 /\ o > rd[t][s]
  /\ rd' = [rd EXCEPT ![t][s] = o]
  /\ pend' = [pend EXCEPT ![t] = [src |-> s, off |-> o, offered |-> FALSE]]
  /\ UNCHANGED <<up, queue, applied, mem, offchg, fl, flw, cur, durFile, durOff>>
\* at most one hand-over per entry: the entry with its key, or its offset only
Offer(t, key) ==
  /\ up[t] /\ pend[t].off # 0 /\ ~pend[t].offered
  /\ queue' = [queue EXCEPT ![t] = Append(@, [src |-> pend[t].src, off |-> pend[t].off, key |-> key])]
  /\ pend' = [pend EXCEPT ![t].offered = TRUE]
  /\ UNCHANGED <<up, rd, applied, mem, offchg, fl, flw, cur, durFile, durOff>>
Verdict(t) ==
  /\ up[t] /\ pend[t].off # 0
  /\ pend' = [pend EXCEPT ![t] = NoPend]
  /\ UNCHANGED <<up, rd, queue, applied, mem, offchg, fl, flw, cur, durFile, durOff>>

\* --- the row store's goroutine ---------------------------------------------
Apply(t) ==
  /\ up[t] /\ fl[t] = "idle" /\ queue[t] # <<>>
  /\ LET h == Head(queue[t]) IN
       /\ h.off > applied[t][h.src]                     \* every entry at most once per life
       /\ applied' = [applied EXCEPT ![t][h.src] = h.off]
       /\ mem' = [mem EXCEPT ![t] = IF h.key THEN @ \cup {<<h.src, h.off>>} ELSE @]
  /\ queue' = [queue EXCEPT ![t] = Tail(@)]
  /\ offchg' = [offchg EXCEPT ![t] = TRUE]
  /\ UNCHANGED <<up, rd, pend, fl, flw, cur, durFile, durOff>>
FlushBegin(t) ==
  /\ up[t] /\ fl[t] = "idle" /\ mem[t] # {}
  /\ fl' = [fl EXCEPT ![t] = "begin"]
  /\ flw' = [flw EXCEPT ![t] = [offs |-> applied[t], set |-> cur[t].set \cup mem[t]]]
  /\ UNCHANGED <<up, rd, pend, queue, applied, mem, offchg, cur, durFile, durOff>>
FlushTemp(t) ==
  /\ up[t] /\ fl[t] = "begin" /\ fl' = [fl EXCEPT ![t] = "temp"]
  /\ UNCHANGED <<up, rd, pend, queue, applied, mem, offchg, flw, cur, durFile, durOff>>
\* the rename makes the new file, with its offsets, what a restart finds
FlushRenamed(t) ==
  /\ up[t] /\ fl[t] = "temp" /\ fl' = [fl EXCEPT ![t] = "renamed"]
  /\ durFile' = [durFile EXCEPT ![t] = flw[t]]
  /\ UNCHANGED <<up, rd, pend, queue, applied, mem, offchg, flw, cur, durOff>>
\* file store and a fresh memstore (same offsets) are installed together
FlushSwapped(t) ==
  /\ up[t] /\ fl[t] = "renamed" /\ fl' = [fl EXCEPT ![t] = "swapped"]
  /\ cur' = [cur EXCEPT ![t] = flw[t]] /\ mem' = [mem EXCEPT ![t] = {}]
  /\ offchg' = [offchg EXCEPT ![t] = FALSE]
  /\ UNCHANGED <<up, rd, pend, queue, applied, flw, durFile, durOff>>
FlushDone(t) ==
  /\ up[t] /\ fl[t] = "swapped" /\ fl' = [fl EXCEPT ![t] = "idle"]
  /\ UNCHANGED <<up, rd, pend, queue, applied, mem, offchg, flw, cur, durFile, durOff>>
\* nothing to flush, but entries were skipped: record how far the table has read
OffWrite(t) ==
  /\ up[t] /\ fl[t] = "idle" /\ mem[t] = {} /\ offchg[t]
  /\ durOff' = [durOff EXCEPT ![t] = applied[t]]
  /\ offchg' = [offchg EXCEPT ![t] = FALSE]
  /\ UNCHANGED <<up, rd, pend, queue, applied, mem, fl, flw, cur, durFile>>

\* --- crash and restart -------------------------------------------------------
Crash(t) ==
  /\ up[t] /\ up' = [up EXCEPT ![t] = FALSE]
  /\ pend' = [pend EXCEPT ![t] = NoPend] /\ queue' = [queue EXCEPT ![t] = <<>>]
  /\ mem' = [mem EXCEPT ![t] = {}] /\ fl' = [fl EXCEPT ![t] = "idle"]
  /\ offchg' = [offchg EXCEPT ![t] = FALSE]
  /\ UNCHANGED <<rd, applied, flw, cur, durFile, durOff>>
Open(t) ==
  /\ ~up[t] /\ up' = [up EXCEPT ![t] = TRUE]
  /\ rd' = [rd EXCEPT ![t] = Rec(t)] /\ applied' = [applied EXCEPT ![t] = Rec(t)]
  /\ cur' = [cur EXCEPT ![t] = durFile[t]]
  /\ UNCHANGED <<pend, queue, mem, offchg, fl, flw, durFile, durOff>>

=============================================================================
