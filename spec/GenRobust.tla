----------------------------- MODULE GenRobust -----------------------------
(* Writes the abstract input space of spec/Robust.tla as ndjson (one input *)
(* per line) for lib/robust_checks.py.                                     *)
EXTENDS Robust

Out == [i \in DOMAIN SqlOut |-> [t |-> "sql", kind |-> SqlOut[i].kind, base |-> SqlOut[i].base, ops |-> SqlOut[i].ops]]
       \o [i \in DOMAIN PayOut |-> [t |-> "payload", class |-> PayOut[i].class, via |-> PayOut[i].via]]

ASSUME /\ ndJsonSerialize(IOEnv.ZV_OUT, Out)
       /\ PrintT(<<"ZVGEN", Len(Out), Len(SqlOut), Len(PayOut), Cardinality(SelectInputs)>>)
=============================================================================
