----------------------------- MODULE TraceStore -----------------------------
(***************************************************************************)
(* Trace validation for Store: every line of an ndjson trace recorded from *)
(* the real code (hooks at the linearization points, see DESIGN.md 4.1) is  *)
(* one action of Store.tla with the logged fields bound; query results are  *)
(* bound to the specification's View at the scan's linearization point.     *)
(* Many scenarios are concatenated; a "Reset" line starts the next one.  A  *)
(* scenario that cannot be continued is recorded in `fails' and skipped so  *)
(* that the rest of the file is still checked.                              *)
(***************************************************************************)
EXTENDS StoreProps, Json, IOUtils, FiniteSetsExt, SequencesExt

Trace == ndJsonDeserialize(IOEnv.ZV_TRACE)

VARIABLES
  l,       \* next line of Trace
  qs,      \* [Tables -> [mem, disk]] view captured at the scan's start
  ss,      \* the same for a scan that is held open while other things happen
  scn,     \* current scenario id
  fails,   \* set of [scn, at] : scenarios the specification cannot follow
  viol     \* set of [scn, inv, at, bad] : property predicates found false

tvars == <<vars, l, qs, ss, scn, fails, viol>>

CONSTANT CheckInvs   \* names of the StoreProps predicates to evaluate after every line
CONSTANT GProj       \* [group-by name -> [native group key -> projected key]] (C06)
CONSTANT KeySat      \* [native group key -> set of predicate ids its dimensions satisfy] (C08)

Line == Trace[l]
IsEv(a) == l <= Len(Trace) /\ Line.a = a /\ l' = l + 1

ToPoint(r) == [id |-> r.id, ts |-> r.ts, k |-> r.k, sat |-> ToSet(r.sat),
               vs |-> ToSet(r.vs), n |-> r.n]

NoSnap == [t \in Tables |-> [mem |-> EmptyBag, disk |-> EmptyBag, clock |-> 0]]

\* what a query shows of a bag of cells: for the _points field only the count
IsPts(f) == Src[f] = "_point"
ObsKey(e) == IF IsPts(e[3]) THEN <<e[1], e[2], e[3], 0>> ELSE e
Observable(B) ==
  [o \in {ObsKey(e) : e \in DOMAIN B} |->
      FoldSet(LAMBDA e, acc : acc + B[e], 0, {e \in DOMAIN B : ObsKey(e) = o})]
RowKey(r) == <<r[1], r[2], r[3], r[4]>>
ObsBag(rows) == LET R == ToSet(rows)
                IN [o \in {RowKey(r) : r \in R} |-> (CHOOSE r \in R : RowKey(r) = o)[5]]

NoScan == [t \in Tables |-> [mem |-> EmptyBag, disk |-> EmptyBag, clock |-> 0, want |-> FALSE]]
TraceInit == Init /\ l = 1 /\ qs = NoSnap /\ ss = NoScan /\ scn = "" /\ fails = {} /\ viol = {}

Same == UNCHANGED <<qs, ss, scn, fails>>

TReset ==
  /\ IsEv("Reset")
  /\ scn' = Line.scn
  /\ qs' = NoSnap /\ ss' = NoScan
  /\ UNCHANGED fails
  \* back to Store!Init
  /\ wal' = <<>> /\ clock' = 0 /\ up' = FALSE /\ opened' = {}
  /\ rd' = [t \in Tables |-> 0] /\ pend' = [t \in Tables |-> <<>>]
  /\ mem' = [t \in Tables |-> EmptyMem(0, InitFlds[t])]
  /\ cur' = [t \in Tables |-> 0] /\ disk' = [t \in Tables |-> <<>>]
  /\ offFile' = [t \in Tables |-> 0] /\ fl' = [t \in Tables |-> IdleFlush]
  /\ flushCount' = [t \in Tables |-> 0] /\ where' = InitWhere /\ flds' = InitFlds
  /\ nextFile' = 1

TStart  == IsEv("Start") /\ Start /\ Same
TOpen   == IsEv("Open") /\ Open(Line.t, Line.w, Line.fs) /\ RecoveredOff(Line.t) = Line.off /\ Same
TInsert == IsEv("Insert") /\ Insert(ToPoint(Line.p)) /\ Same
TDecide == IsEv("Decide") /\ Decide(Line.t) /\ rd'[Line.t] = Line.idx /\ Same
TApply  == /\ IsEv("Apply") /\ Apply(Line.t)
           /\ Head(pend[Line.t]).idx = Line.idx
           /\ Head(pend[Line.t]).data = Line.data
           /\ Same
TFlushBegin  == /\ IsEv("FlushBegin") /\ FlushBegin(Line.t, Line.sorted)
                /\ fl'[Line.t].noRaw = Line.noRaw /\ Same
TFlushTemp   == IsEv("FlushTemp") /\ FlushTemp(Line.t) /\ Same
TFlushRename == IsEv("FlushRename") /\ FlushRename(Line.t) /\ fl[Line.t].file.off = Line.off /\ Same
TFlushSwap   == IsEv("FlushSwap") /\ FlushSwap(Line.t) /\ Same
TOffWrite    == IsEv("OffWrite") /\ OffWrite(Line.t) /\ mem[Line.t].off = Line.off /\ Same
TRemoveOld   == IsEv("RemoveOld") /\ RemoveOld(Line.t) /\ Same
TAlterFields == IsEv("AlterFields") /\ AlterFields(Line.t, Line.fs) /\ Same
TRSFields    == IsEv("RSFields") /\ RSFields(Line.t) /\ Same
TAlterWhere  == IsEv("AlterWhere") /\ AlterWhere(Line.t, Line.w) /\ Same
TCrash  == IsEv("Crash") /\ Crash /\ Same
TClose  == IsEv("Close") /\ Close /\ Same

\* rowStore.iterate (row_store.go:331-337): under rs.mx.RLock the scan takes
\* the current file store and a copy of the memstore
TQueryStart ==
  /\ IsEv("QueryStart")
  /\ up /\ Line.t \in opened
  /\ LET snap == [mem |-> View(Line.t), disk |-> DiskView(Line.t), clock |-> clock]
     IN IF ss[Line.t].want
        THEN /\ ss' = [ss EXCEPT ![Line.t] = [mem |-> snap.mem, disk |-> snap.disk, clock |-> snap.clock, want |-> FALSE]]
             /\ UNCHANGED qs
        ELSE /\ qs' = [qs EXCEPT ![Line.t] = snap]
             /\ UNCHANGED ss
  /\ UNCHANGED <<vars, scn, fails>>

\* the driver announces a scan it is going to hold open: the next scan start
\* of that table is the held one
TScanBegin ==
  /\ IsEv("ScanBegin")
  /\ ss' = [ss EXCEPT ![Line.t].want = TRUE]
  /\ UNCHANGED <<vars, qs, scn, fails>>

\* a query naming fields (Line.fields # <<>>) returns only those, and is
\* planned with the default time window (now - retention, now], both ends
\* rounded up to the table's resolution (query.go:62-63)
InWindow(t, P, now) == LET until == PeriodOf(t, now)
                           asOf  == PeriodOf(t, until - Ret[t])
                       IN P > asOf /\ P <= until
Shown(B, t, fs, win, now) ==
  [e \in {x \in DOMAIN B : /\ (fs = <<>> \/ x[3] \in ToSet(fs))
                            /\ (~win \/ InWindow(t, x[2], now))} |-> B[e]]

\* A disk-only scan returns the file's cells exactly.  A memstore-inclusive
\* scan merges file and memstore columns and may drop a column that lies
\* wholly before now - retention (seq.go:348-352), so cells of expired periods
\* may be missing from its result, wholly or in the part that came from one of
\* the two stores; everything it returns is stored, and every live cell is
\* returned with its exact contents.
TQueryResult ==
  /\ IsEv("QueryResult")
  /\ LET q   == IF Line.held > 0 THEN ss[Line.t] ELSE qs[Line.t]
         M   == Observable(Shown(IF Line.mem THEN q.mem ELSE q.disk, Line.t, Line.fields, Line.win, q.clock))
         obs == ObsBag(Line.rows)
     IN IF Line.mem
        THEN (\A o \in DOMAIN obs :
                 (o \in DOMAIN M) /\ (obs[o] <= M[o]) /\ (Live(Line.t, o[2], q.clock) => (obs[o] = M[o])))
             /\ (\A e \in DOMAIN M : Live(Line.t, e[2], q.clock) => (e \in DOMAIN obs))
        ELSE obs = M
  /\ UNCHANGED <<vars, qs, ss, scn, fails>>

----------------------------------------------------------------------------
(* Grouped and time-ranged queries (C06, C07; Query semantics).              *)
(*                                                                           *)
(* desc = [by, m, asOf, until]: by names the dimension subset ("*" = the     *)
(* table's own key), m the period multiple (0 = none given), asOf / until    *)
(* are [k |-> "none" | "abs" | "rel", v |-> ticks].  The check does not      *)
(* re-implement how the code rounds the window or anchors coarse periods; it *)
(* states what C06 / C07 state, relative to the timestamps T of the rows     *)
(* actually returned:                                                        *)
(*  - rows of one key are at least P apart (periods are disjoint);           *)
(*  - a row (k, T) holds the native cells whose key projects to k and whose  *)
(*    period end lies in (T - P, T]: all of them that lie wholly inside the  *)
(*    requested window, none that lie wholly outside it;                     *)
(*  - every native cell wholly inside the window is covered by some row.     *)
Bound(b, now) == CASE b.k = "abs" -> b.v [] b.k = "rel" -> now + b.v [] OTHER -> 0
MustIn(t, p, d, now) ==          \* the period lies wholly inside the window
  \* (the default window's lower end is computed from the rounded-up clock
  \* and rounded up again, query.go:62-63: one resolution of slack there)
  LET lo == IF d.asOf.k = "none" THEN now - Ret[t] + Res[t] ELSE Bound(d.asOf, now)
      hi == IF d.until.k = "none" THEN p ELSE Bound(d.until, now)
  IN p - Res[t] >= lo /\ p <= hi
MayIn(t, p, d, now) ==           \* the period is not wholly outside it
  LET lo == IF d.asOf.k = "none" THEN now - Ret[t] - Res[t] ELSE Bound(d.asOf, now)
      hi == IF d.until.k = "none" THEN p + 1 ELSE Bound(d.until, now)
  IN p > lo /\ p - Res[t] < hi
GroupedOK(t, B, d, now, obs) ==
  LET P     == IF d.m = 0 THEN Res[t] ELSE d.m * Res[t]
      proj(k) == GProj[d.by][k]
      \* native cells feeding output cell o = <<k, T, f, id>>
      feed(o, in(_)) == {e \in DOMAIN B : /\ proj(e[1]) = o[1] /\ e[3] = o[3]
                                           /\ (IsPts(e[3]) \/ e[4] = o[4])
                                           /\ e[2] > o[2] - P /\ e[2] <= o[2] /\ in(e[2])}
      must(p) == MustIn(t, p, d, now)
      may(p)  == MayIn(t, p, d, now)
      sum(S)  == FoldSet(LAMBDA e, acc : acc + B[e], 0, S)
  IN /\ \A o1, o2 \in DOMAIN obs : (o1[1] = o2[1] /\ o1[2] < o2[2]) => o2[2] - o1[2] >= P
     /\ \A o \in DOMAIN obs : /\ obs[o] >= sum(feed(o, must))
                               /\ obs[o] <= sum(feed(o, may))
     /\ \A e \in DOMAIN B : must(e[2]) =>
           \E o \in DOMAIN obs : /\ o[1] = proj(e[1]) /\ o[3] = e[3] /\ (IsPts(e[3]) \/ o[4] = e[4])
                                  /\ e[2] > o[2] - P /\ e[2] <= o[2]

TGQueryResult ==
  /\ IsEv("GQueryResult")
  /\ LET q == qs[Line.t]
         B == Shown(IF Line.mem THEN q.mem ELSE q.disk, Line.t, Line.fields, FALSE, q.clock)
         \* a WHERE over dimensions keeps exactly the rows whose key satisfies it (C08)
         W == [e \in {x \in DOMAIN B : Line.desc.w = "" \/ Line.desc.w \in KeySat[x[1]]} |-> B[e]]
     IN Line.err = "" => GroupedOK(Line.t, W, Line.desc, q.clock, ObsBag(Line.rows))
  /\ UNCHANGED <<vars, qs, ss, scn, fails>>

\* a query whose result is not bound here (its scan starts are still lines of
\* the trace); being a query, it changes nothing
TOther == IsEv("Other") /\ UNCHANGED <<vars, qs, ss, scn, fails>>

Normal ==
  \/ TOther \/ TGQueryResult \/ TReset \/ TStart \/ TOpen \/ TInsert \/ TDecide \/ TApply
  \/ TFlushBegin \/ TFlushTemp \/ TFlushRename \/ TFlushSwap \/ TOffWrite \/ TRemoveOld
  \/ TAlterFields \/ TRSFields \/ TAlterWhere \/ TCrash \/ TClose
  \/ TQueryStart \/ TQueryResult \/ TScanBegin

\* the specification cannot take line l: remember where, skip to the next scenario
NextReset == LET S == {j \in (l + 1)..Len(Trace) : Trace[j].a = "Reset"}
             IN IF S = {} THEN Len(Trace) + 1 ELSE Min(S)
\* diagnostics for a line that cannot be taken: for a query result, the cells
\* the specification has for it
StuckInfo ==
  IF Line.a = "QueryResult"
  THEN LET q == IF Line.held > 0 THEN ss[Line.t] ELSE qs[Line.t]
           M == Observable(Shown(IF Line.mem THEN q.mem ELSE q.disk, Line.t, Line.fields, Line.win, q.clock))
       IN [at |-> l, clock |-> q.clock, model |-> {<<e, M[e]>> : e \in DOMAIN M}]
  ELSE IF Line.a = "GQueryResult"
  THEN LET q == qs[Line.t]
           B == Shown(IF Line.mem THEN q.mem ELSE q.disk, Line.t, Line.fields, FALSE, q.clock)
       IN [at |-> l, clock |-> q.clock, model |-> {<<e, B[e]>> : e \in DOMAIN B}]
  ELSE [at |-> l, clock |-> clock, rd |-> rd, pend |-> pend, pc |-> [t \in Tables |-> fl[t].pc],
        off |-> [t \in Tables |-> mem[t].off]]
TSkip ==
  /\ l <= Len(Trace)
  /\ ~ENABLED Normal
  /\ PrintT(<<"ZVSTUCK", ToJson(StuckInfo)>>)
  /\ fails' = fails \cup {[scn |-> scn, at |-> l]}
  /\ l' = NextReset
  /\ UNCHANGED <<vars, qs, ss, scn>>

\* the properties, evaluated in every state the trace passes through; `bad'
\* names the (table, point id) pairs on which the state differs from the
\* reference, so that a report can say what exactly is wrong
CaughtUpTables == {t \in Tables : CaughtUp(t)}
BadOf(inv) ==
  CASE inv = "ExactlyOnce" ->
         UNION {{<<t, e[4]>> : e \in DiffCells(View(t), ExpectedS(t, Len(wal)))} : t \in CaughtUpTables}
    [] inv = "ViewCorrect" ->
         UNION {{<<t, e[4]>> : e \in DiffCells(View(t), Expected(t, Len(wal)))} : t \in CaughtUpTables}
    [] inv = "MemLockStep" ->
         UNION {{<<t, e[4]>> : e \in DiffCells(View(t), AppliedPart(t))} : t \in opened}
    [] inv = "DiskLockStep" ->      \* files are immutable: the newest one suffices
         UNION {IF Newest(t) = 0 THEN {}
                ELSE {<<t, e[4]>> : e \in DiffCells(OnFields(disk[t][Newest(t)].cells, flds[t]),
                                                    ExpectedS(t, disk[t][Newest(t)].off))}
                : t \in Tables}
    [] inv = "AtMostOnce" -> IF AtMostOnce THEN {} ELSE {<<"*", 0>>}
    [] inv = "OffsetsOrdered" -> IF OffsetsOrdered THEN {} ELSE {<<"*", 0>>}
    [] inv = "NoExpiredInTruncatedFile" ->
         UNION {IF Newest(t) = 0 \/ ~disk[t][Newest(t)].trunc THEN {}
                ELSE {<<t, e[4]>> : e \in {x \in DOMAIN disk[t][Newest(t)].cells :
                                               ~Live(t, x[2], disk[t][Newest(t)].now)}}
                : t \in Tables}
    [] OTHER -> {}
\* recorded in every state in which a predicate is false (the report keeps
\* the first line per scenario and predicate)
NewViol == IF UNCHANGED vars THEN {}      \* queries and observations change nothing
           ELSE {[scn |-> scn', inv |-> i, at |-> l, bad |-> BadOf(i)'] : i \in {j \in CheckInvs : BadOf(j)' # {}}}

TraceNext == (Normal /\ viol' = viol \cup NewViol) \/ (TSkip /\ UNCHANGED viol)
TraceSpec == TraceInit /\ [][TraceNext]_tvars

\* the whole file was consumed; report the scenarios that were not accepted
Consumed == l = Len(Trace) + 1
Report ==
  /\ PrintT(<<"ZVTRACE", ToJson([lines |-> Len(Trace), fails |-> fails, viol |-> viol])>>)
  /\ TRUE
Done == (l = Len(Trace) + 1) => Report
=============================================================================
