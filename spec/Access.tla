------------------------------- MODULE Access -------------------------------
(***************************************************************************)
(* C19: who is given data by a zenodb node.                                 *)
(*                                                                           *)
(* RPC side (rpc/server/rpc_server.go): query, follow and remote-query      *)
(* handler registration are guarded by one password.                        *)
(* Web side (web/auth.go, web/query.go): /run /async /immediate /cached are *)
(* guarded by a static token (header) or a session cookie that the server   *)
(* issued after GitHub confirmed the organisation membership of the user.   *)
(*                                                                           *)
(* The state machine below is the environment: the configuration, a clock,  *)
(* GitHub (membership per access token, the organisation API up or down)    *)
(* and the sessions the server has issued.  In every state a request can   *)
(* be made with any credential; Must says what the property statement      *)
(* demands for it ("serve", "refuse" or "either" where the statement leaves *)
(* latitude) and Decide what the code does.  Shipped = TRUE models the code *)
(* as it was shipped (web/auth.go:49, :155-157, rpc_server.go:164), FALSE   *)
(* the repaired code.  DesignSafe is checked by TLC in every state; every   *)
(* distinct state is exported with a shortest history that reaches it and   *)
(* the batch of all requests, and zvaccess replays history and batch on a   *)
(* real rpc server and a real web handler.                                  *)
(***************************************************************************)
EXTENDS Naturals, Sequences, FiniteSets, TLC, Json

CONSTANTS MaxNow,       \* the clock runs 0 .. MaxNow
          SessionLen,   \* ticks for which an issued session is valid
          MaxSteps,     \* bound on the length of the history
          Shipped       \* TRUE: Decide models the code before the repairs

Tokens == {"member", "outsider"}       \* GitHub access tokens of two users
HttpEps == {"run", "async", "immediate", "cached"}
RpcEps == {"query", "follow", "register"}
Creds == {"none", "wrong", "right"}

VARIABLES cfg,       \* [rpcPw, oauth, webPw : BOOLEAN]
          now,       \* the clock
          inOrg,     \* tokens whose user is in the organisation right now
          github,    \* "up" | "orgs_down" (the membership API answers 5xx)
          sessions,  \* well-signed cookies issued so far: [tok, exp, ver(ified when issued)]
          hist       \* how we got here (excluded from the VIEW)
vars == <<cfg, now, inOrg, github, sessions, hist>>
view == <<cfg, now, inOrg, github, sessions>>

H(e) == hist' = Append(hist, e)

Init == /\ cfg \in [rpcPw : BOOLEAN, oauth : BOOLEAN, webPw : BOOLEAN]
        /\ now = 0 /\ inOrg = {"member"} /\ github = "up" /\ sessions = {} /\ hist = <<>>

\* --- environment steps -----------------------------------------------------
\* The OAuth code flow (web/auth.go oauthCode): the state parameter must be one
\* the server issued, GitHub must hand out a token and must confirm that the
\* user is in the organisation; only then is a session cookie set.
LoginIssues(tok, state) ==
  IF Shipped THEN state = "good" /\ (github = "orgs_down" \/ tok \in inOrg)
             ELSE state = "good" /\ github = "up" /\ tok \in inOrg
LoginMustIssue(tok, state) == state = "good" /\ github = "up" /\ tok \in inOrg
Login(tok, state) ==
  /\ cfg.oauth /\ Len(hist) < MaxSteps
  /\ sessions' = IF LoginIssues(tok, state)
                 THEN sessions \cup {[tok |-> tok, exp |-> now + SessionLen, ver |-> github = "up" /\ tok \in inOrg]}
                 ELSE sessions
  /\ H([a |-> "Login", tok |-> tok, state |-> state, issued |-> LoginIssues(tok, state),
        mustIssue |-> LoginMustIssue(tok, state)])
  /\ UNCHANGED <<cfg, now, inOrg, github>>
Tick == /\ now < MaxNow /\ Len(hist) < MaxSteps /\ sessions # {}
        /\ now' = now + 1 /\ H([a |-> "Tick"])
        /\ UNCHANGED <<cfg, inOrg, github, sessions>>
Revoke(tok) == /\ tok \in inOrg /\ Len(hist) < MaxSteps /\ cfg.oauth
               /\ inOrg' = inOrg \ {tok} /\ H([a |-> "Revoke", tok |-> tok])
               /\ UNCHANGED <<cfg, now, github, sessions>>
Outage == /\ Len(hist) < MaxSteps /\ cfg.oauth
          /\ github' = IF github = "up" THEN "orgs_down" ELSE "up"
          /\ H([a |-> "Github", state |-> github'])
          /\ UNCHANGED <<cfg, now, inOrg, sessions>>

Next == \/ \E tok \in Tokens, st \in {"good", "forged"} : Login(tok, st)
        \/ Tick \/ Outage
        \/ \E tok \in Tokens : Revoke(tok)
Spec == Init /\ [][Next]_vars

\* --- requests ---------------------------------------------------------------
Cookies == {[kind |-> "none"], [kind |-> "forged"]} \cup {[kind |-> "session", s |-> c] : c \in sessions}
HttpReqs == [ep : HttpEps, hdr : Creds, ck : Cookies]
RpcReqs == [ep : RpcEps, pw : Creds]

Live(c) == c \in sessions /\ now < c.exp
Reverifiable(c) == github = "up" /\ c.tok \in inOrg

\* what the statement demands
ByCookieMust(k) ==
  IF k.kind # "session" THEN "refuse"
  ELSE LET ck == k.s IN
  IF Live(ck) THEN (IF ck.ver THEN "serve" ELSE "either")   \* an unverified session is the fault of Login, judged there
  ELSE IF Reverifiable(ck) THEN "either"     \* the session is renewed by a fresh verification
  ELSE "refuse"
MustHttp(r) ==
  IF ~cfg.oauth THEN "either"                \* web authentication not configured
  ELSE IF cfg.webPw /\ r.hdr = "right" THEN "serve"
  ELSE IF cfg.webPw /\ r.hdr = "wrong" THEN (IF ByCookieMust(r.ck) = "refuse" THEN "refuse" ELSE "either")
  ELSE ByCookieMust(r.ck)
MustRpc(r) == IF ~cfg.rpcPw THEN "either" ELSE IF r.pw = "right" THEN "serve" ELSE "refuse"

\* what the code does
ByCookieDecide(k) ==
  IF k.kind # "session" THEN "refuse"
  ELSE LET ck == k.s IN
  IF Shipped
       THEN (IF ~Live(ck) THEN "serve" ELSE IF Reverifiable(ck) THEN "serve" ELSE "refuse")
       ELSE (IF Live(ck) THEN "serve" ELSE IF Reverifiable(ck) THEN "serve" ELSE "refuse")
DecideHttp(r) ==
  IF ~cfg.oauth THEN "serve"
  ELSE IF cfg.webPw /\ r.hdr # "none" THEN (IF r.hdr = "right" THEN "serve" ELSE "refuse")
  ELSE ByCookieDecide(r.ck)
DecideRpc(r) ==
  IF ~cfg.rpcPw THEN "serve"
  ELSE IF Shipped /\ r.ep = "register" THEN "serve"
  ELSE IF r.pw = "right" THEN "serve" ELSE "refuse"

Refines(d, m) == m = "either" \/ d = m

\* C19 on the design: in every reachable state every request is decided as
\* the statement demands, and a session is issued only after verification
DesignSafe == /\ \A r \in HttpReqs : Refines(DecideHttp(r), MustHttp(r))
              /\ \A r \in RpcReqs : Refines(DecideRpc(r), MustRpc(r))
OnlyVerifiedSessions == \A c \in sessions : c.ver

\* --- export: one line per distinct state -------------------------------------
CkName(k) == IF k.kind # "session" THEN k
              ELSE LET ck == k.s IN [kind |-> "session", tok |-> ck.tok, exp |-> ck.exp, left |-> IF now < ck.exp THEN ck.exp - now ELSE 0,
                    expired |-> ~(now < ck.exp)]
Batch ==
  [cfg |-> cfg, hist |-> hist, now |-> now, sessionLen |-> SessionLen, github |-> github, inOrg |-> inOrg,
   http |-> {[ep |-> r.ep, hdr |-> r.hdr, ck |-> CkName(r.ck), must |-> MustHttp(r), decide |-> DecideHttp(r)] : r \in HttpReqs},
   rpc |-> {[ep |-> r.ep, pw |-> r.pw, must |-> MustRpc(r), decide |-> DecideRpc(r)] : r \in RpcReqs},
   \* login attempts made in this state (an attempt that issues nothing changes no
   \* variable, so it never lies on a shortest history: it is asked for here)
   logins |-> IF cfg.oauth THEN {[tok |-> tok, state |-> st, issued |-> LoginIssues(tok, st), mustIssue |-> LoginMustIssue(tok, st)] :
                                   tok \in Tokens, st \in {"good", "forged"}}
              ELSE {}]
Emit == PrintT(<<"ZVACC", ToJson(Batch)>>)
=============================================================================
