------------------------------- MODULE Store -------------------------------
(***************************************************************************)
(* One zenodb node: a stream's write-ahead log, the database clock, and    *)
(* for every table fed by the stream the ingest pipeline                   *)
(*   WAL reader -> table.processInserts -> rowStore.processInserts,        *)
(* the memstore, the on-disk file stores, the offset file, the flush       *)
(* protocol, crash and recovery, schema changes and scans.                 *)
(*                                                                         *)
(* The specification is written to be bound to the code: one action per    *)
(* critical section / linearization point (file:line of the pinned tree in *)
(* the comment of each action), and the abstract contents of a store are   *)
(* directly observable through DB.Query: a store is a BAG of               *)
(*   <<group key, period end, field, point id>>                            *)
(* tuples (see DESIGN.md "bag-of-ids observable").                         *)
(***************************************************************************)
EXTENDS Integers, Sequences, FiniteSets, Bags, TLC

CONSTANTS
  Tables,      \* table (and view) names fed by the one stream
  Res,         \* [Tables -> Nat \ {0}]  resolution, in ticks
  Ret,         \* [Tables -> Nat]        retention, in ticks
  Proj,        \* [Tables -> [point key -> group key]]  GROUP BY projection
  InitWhere,   \* [Tables -> where id]   a point p passes iff where id \in p.sat
  InitFlds,    \* [Tables -> Seq(field id)]  (every field is a decodable SUM)
  Src,         \* [field id -> value name]  the value a field aggregates;
               \*   "_point" for the _points field (fed by every row insert)
  ArrayDup,    \* TRUE: every additional value of an array is inserted twice
               \*       (insert.go:216-252 runs twice inside bytemap.Build; D8)
  SplitApply,  \* TRUE: the values of one WAL entry are applied to the row
               \*       store in separate critical sections (insert.go:257-262)
  TruncEvery   \* every TruncEvery-th flush disallows raw pass-through (10)

VARIABLES
  wal,         \* Seq of points; appending = acknowledged (synced) insert
  clock,       \* database clock (virtual: max ts of accepted points since open)
  up,          \* process is running
  opened,      \* tables created in this process (CreateTable has run)
  rd,          \* [Tables -> Nat]  WAL entries read by the table's reader
  pend,        \* [Tables -> Seq]  row-store inserts of the entry in flight
  mem,         \* [Tables -> [cells, off, changed, flds]]   memstore
  cur,         \* [Tables -> file id | 0]   rowStore.fileStore
  disk,        \* [Tables -> [file id -> [cells, off, flds]]]  files in the dir
  offFile,     \* [Tables -> Nat]  contents of the "offset" file (0 = absent)
  fl,          \* [Tables -> flush state]
  flushCount,  \* [Tables -> Nat]
  where,       \* [Tables -> where id]
  flds,        \* [Tables -> Seq(field id)]   table.fields
  nextFile     \* file names are timestamps: strictly increasing ids

vars == <<wal, clock, up, opened, rd, pend, mem, cur, disk, offFile, fl, flushCount,
          where, flds, nextFile>>

----------------------------------------------------------------------------
(* Data *)

Max2(a, b) == IF a >= b THEN a ELSE b
Rng(s)  == {s[i] : i \in DOMAIN s}

\* period containing ts: ends at the smallest multiple of the resolution >= ts
PeriodOf(t, ts) == ((ts + Res[t] - 1) \div Res[t]) * Res[t]

\* a point: [id, ts, k, sat, vs, n]
\*   k    its dimensions (index into Proj[t])
\*   sat  the WHERE predicates its dimensions satisfy
\*   vs   the value names for which it carries a numeric value (int, float64
\*        or array thereof); {} = only non-numeric values
\*   n    length of the array carried for value "w" (1 = scalar)
Passes(t, p)  == where[t] \in p.sat
Expired(t, p) == p.ts < clock - Ret[t]              \* insert.go:133

\* A point is split into one "main" row-store insert carrying the first value
\* of every numeric field, and "extra" inserts, one per additional array
\* element (insert.go:213-262).
ArrayLen(p) == IF "w" \in p.vs THEN p.n ELSE 1
Extras(p)   == IF ArrayDup THEN 2 * (ArrayLen(p) - 1) ELSE ArrayLen(p) - 1
Mains(p)    == IF p.vs = {} THEN 0 ELSE 1

\* the cells the main / one extra row-store insert of p adds to a memstore
\* with fields fs
Cells(t, p, F) == SetToBag({<<Proj[t][p.k], PeriodOf(t, p.ts), f, p.id>> : f \in F})
MainCells(t, p, fs)  == Cells(t, p, {f \in Rng(fs) : Src[f] = "_point" \/ Src[f] \in p.vs})
ExtraCells(t, p, fs) == Cells(t, p, {f \in Rng(fs) : Src[f] = "_point" \/ Src[f] = "w"})

Times(B, n) == IF n = 0 THEN EmptyBag ELSE [e \in DOMAIN B |-> B[e] * n]

RestrictBag(B, S) == [e \in (DOMAIN B) \cap S |-> B[e]]

\* cells of fields fs only
OnFields(B, fs) == [e \in {x \in DOMAIN B : x[3] \in Rng(fs)} |-> B[e]]

\* Sequence.Truncate at a non-raw flush: a period ending at P survives iff
\* P > now - retention  (seq.go:418, row_store.go:582)
Live(t, P, now) == P > now - Ret[t]
Truncated(t, B, now) == [e \in {x \in DOMAIN B : Live(t, x[2], now)} |-> B[e]]

EmptyMem(off, fs) == [cells |-> EmptyBag, off |-> off, changed |-> FALSE, flds |-> fs]
IdleFlush == [pc |-> "idle"]

FileCells(t) == IF cur[t] = 0 THEN EmptyBag ELSE disk[t][cur[t]].cells
FileFlds(t)  == IF cur[t] = 0 THEN <<>> ELSE disk[t][cur[t]].flds
FileOff(t)   == IF cur[t] = 0 THEN 0 ELSE disk[t][cur[t]].off

\* what a memstore-inclusive query of the table's current fields reads
\* (fileStore.iterate, row_store.go:742: file rows mapped to the requested
\* fields by field identity, memstore rows merged in)
View(t)     == OnFields(FileCells(t), flds[t]) (+) OnFields(mem[t].cells, flds[t])
DiskView(t) == OnFields(FileCells(t), flds[t])

----------------------------------------------------------------------------
Init ==
  /\ wal = <<>>
  /\ clock = 0
  /\ up = FALSE
  /\ opened = {}
  /\ rd = [t \in Tables |-> 0]
  /\ pend = [t \in Tables |-> <<>>]
  /\ mem = [t \in Tables |-> EmptyMem(0, InitFlds[t])]
  /\ cur = [t \in Tables |-> 0]
  /\ disk = [t \in Tables |-> <<>>]
  /\ offFile = [t \in Tables |-> 0]
  /\ fl = [t \in Tables |-> IdleFlush]
  /\ flushCount = [t \in Tables |-> 0]
  /\ where = InitWhere
  /\ flds = InitFlds
  /\ nextFile = 1

\* DB.InsertRaw (insert.go:21-59): wal.Write with WALSyncInterval = 0 flushes
\* and fsyncs before returning; the return is the acknowledgement.
Insert(p) ==
  /\ up
  /\ wal' = Append(wal, p)
  /\ UNCHANGED <<clock, up, opened, rd, pend, mem, cur, disk, offFile, fl, flushCount,
                 where, flds, nextFile>>

\* table.processInserts reads the next entry and decides (insert.go:95-107,
\* :123-268): expired -> skip; fails WHERE -> skip; else advance the clock and
\* produce one row-store insert per value.  A skip is a row-store insert that
\* carries only the offset (insert.go:171).  An accepted point without any
\* numeric value produces no row-store insert at all (insert.go:247, :256).
NCopies(n, rec) == [i \in 1..n |-> rec]
Decide(t) ==
  /\ up /\ t \in opened
  /\ Len(pend[t]) <= 1       \* the previous entry's last insert may still be
                            \* between the channel receive and rs.mx
  /\ rd[t] < Len(wal)
  /\ LET i == rd[t] + 1
         p == wal[i]
     IN /\ rd' = [rd EXCEPT ![t] = i]
        /\ IF Expired(t, p) \/ ~Passes(t, p)
           THEN /\ pend' = [pend EXCEPT ![t] = @ \o <<[idx |-> i, data |-> FALSE, main |-> 0, extra |-> 0]>>]
                /\ clock' = clock
           ELSE /\ clock' = Max2(clock, p.ts)               \* insert.go:190
                /\ pend' = [pend EXCEPT ![t] = @ \o
                     IF Mains(p) = 0 THEN <<>>
                     ELSE IF SplitApply
                     THEN <<[idx |-> i, data |-> TRUE, main |-> 1, extra |-> 0]>>
                          \o NCopies(Extras(p), [idx |-> i, data |-> TRUE, main |-> 0, extra |-> 1])
                     ELSE <<[idx |-> i, data |-> TRUE, main |-> 1, extra |-> Extras(p)]>>]
  /\ UNCHANGED <<wal, up, opened, mem, cur, disk, offFile, fl, flushCount, where, flds, nextFile>>

\* rowStore.processInserts, case insert (row_store.go:287-295): under rs.mx the
\* offset of the entry is recorded together with the row update.  Not enabled
\* while the same goroutine runs a flush.
Apply(t) ==
  /\ up /\ t \in opened
  /\ pend[t] # <<>>
  /\ fl[t].pc = "idle"
  /\ LET s == Head(pend[t])
         p == wal[s.idx]
     IN mem' = [mem EXCEPT ![t] =
          [cells   |-> IF s.data
                       THEN @.cells (+) Times(MainCells(t, p, @.flds), s.main)
                                    (+) Times(ExtraCells(t, p, @.flds), s.extra)
                       ELSE @.cells,
           off     |-> s.idx,
           changed |-> TRUE,
           flds    |-> @.flds]]
  /\ pend' = [pend EXCEPT ![t] = Tail(@)]
  /\ UNCHANGED <<wal, clock, up, opened, rd, cur, disk, offFile, fl, flushCount, where, flds, nextFile>>

----------------------------------------------------------------------------
(* Flush protocol, all inside the row-store goroutine (row_store.go:253-283,
   :365-453).  A flush of an empty memstore writes the offset file if the
   offset moved (row_store.go:257-264, :657-679). *)

\* rs.fields are the output fields of the new file
FlushBegin(t, sorted) ==
  /\ up /\ t \in opened
  /\ \/ fl[t].pc = "idle" /\ mem[t].cells # EmptyBag
     \/ fl[t].pc = "pre" /\ ~sorted          \* the flush an Alter forces
  /\ LET noRaw == (flushCount[t] % TruncEvery) = TruncEvery - 1     \* :378
     IN fl' = [fl EXCEPT ![t] = [pc |-> "begun", noRaw |-> noRaw, sorted |-> sorted]]
  /\ flushCount' = [flushCount EXCEPT ![t] = @ + 1]
  /\ UNCHANGED <<wal, clock, up, opened, rd, pend, mem, cur, disk, offFile, where, flds, nextFile>>

\* fileStore.flush (row_store.go:455-508): iterate file U memstore into a temp
\* file whose header carries the memstore offsets and the field list.  A file
\* row whose key has no memstore columns is passed through raw (untruncated)
\* when raw is allowed, the flush is not sorted and the file's fields equal
\* the output fields (:800, :843); every other row is re-encoded and
\* truncated to the retention window (:580-592).
KeysOf(B) == {e[1] : e \in DOMAIN B}
FlushContent(t, noRaw, sorted) ==
  LET out    == mem[t].flds        \* = rs.fields, see AlterFields
      fcells == OnFields(FileCells(t), out)
      mcells == OnFields(mem[t].cells, out)
      rawOK  == ~noRaw /\ ~sorted /\ FileFlds(t) = out
      rawK   == IF rawOK THEN KeysOf(FileCells(t)) \ KeysOf(mem[t].cells) ELSE {}
      isRaw(e) == e[1] \in rawK
      rawPart == [e \in {x \in DOMAIN fcells : isRaw(x)} |-> fcells[e]]
      rest    == [e \in {x \in DOMAIN fcells : ~isRaw(x)} |-> fcells[e]] (+) mcells
  IN rawPart (+) Truncated(t, rest, clock)

FlushTemp(t) ==
  /\ up /\ t \in opened
  /\ fl[t].pc = "begun"
  /\ fl' = [fl EXCEPT ![t] = [pc |-> "temp", noRaw |-> @.noRaw, sorted |-> @.sorted,
                              file |-> [cells |-> FlushContent(t, @.noRaw, @.sorted),
                                        off   |-> mem[t].off,
                                        flds  |-> mem[t].flds,
                                        trunc |-> @.noRaw \/ @.sorted,   \* every row re-encoded
                                        now   |-> clock]]]
  /\ UNCHANGED <<wal, clock, up, opened, rd, pend, mem, cur, disk, offFile, flushCount, where, flds, nextFile>>

\* fsync, close, rename into the table directory (row_store.go:410-427)
FlushRename(t) ==
  /\ up /\ t \in opened
  /\ fl[t].pc = "temp"
  /\ disk' = [disk EXCEPT ![t] = (nextFile :> fl[t].file) @@ @]
  /\ fl' = [fl EXCEPT ![t] = [pc |-> "renamed", id |-> nextFile]]
  /\ nextFile' = nextFile + 1
  /\ UNCHANGED <<wal, clock, up, opened, rd, pend, mem, cur, offFile, flushCount, where, flds>>

\* swap under rs.mx (row_store.go:437-442)
FlushSwap(t) ==
  /\ up /\ t \in opened
  /\ fl[t].pc = "renamed"
  /\ cur' = [cur EXCEPT ![t] = fl[t].id]
  /\ mem' = [mem EXCEPT ![t] = EmptyMem(@.off, disk[t][fl[t].id].flds)]
  /\ fl' = [fl EXCEPT ![t] = IdleFlush]
  /\ UNCHANGED <<wal, clock, up, opened, rd, pend, disk, offFile, flushCount, where, flds, nextFile>>

\* offset-only "flush" (row_store.go:257-264): temp file + rename in one step
\* here; the intermediate state (temp file written, not renamed) differs from
\* the state before only in a file outside the table directory.
OffWrite(t) ==
  /\ up /\ t \in opened
  /\ fl[t].pc = "idle"
  /\ mem[t].cells = EmptyBag
  /\ mem[t].changed
  /\ offFile' = [offFile EXCEPT ![t] = mem[t].off]
  /\ mem' = [mem EXCEPT ![t].changed = FALSE]
  /\ UNCHANGED <<wal, clock, up, opened, rd, pend, cur, disk, fl, flushCount, where, flds, nextFile>>

\* removeOldFiles (row_store.go:681-725): everything but the newest two files
RemoveOld(t) ==
  /\ up /\ t \in opened
  /\ Cardinality(DOMAIN disk[t]) > 2
  /\ LET ids  == DOMAIN disk[t]
         keep == {i \in ids : Cardinality({j \in ids : j > i}) < 2}
     IN disk' = [disk EXCEPT ![t] = [i \in keep |-> @[i]]]
  /\ UNCHANGED <<wal, clock, up, opened, rd, pend, mem, cur, offFile, fl, flushCount, where, flds, nextFile>>

----------------------------------------------------------------------------
(* Schema changes (table.go:184-192, :316-332, row_store.go:308-323) *)

\* table.Alter -> applyFields (table.go:316-332): table.fields changes first
\* (queries planned from now on ask for the new fields), then the new list is
\* handed to the row-store goroutine.
AlterFields(t, fs) ==
  /\ up /\ t \in opened
  /\ fs # flds[t]
  /\ flds[t] = mem[t].flds          \* the previous Alter call has returned
  /\ flds' = [flds EXCEPT ![t] = fs]
  /\ UNCHANGED <<wal, clock, up, opened, rd, pend, mem, cur, disk, offFile, fl, flushCount, where, nextFile>>

\* rowStore.processInserts, case fieldUpdates (row_store.go:308-323):
\* rs.fields = fields, then a non-empty memstore is flushed at once with the
\* new fields as output fields (memstore columns are mapped by field identity,
\* row_store.go:1000-1031), an empty one is replaced by one with the new fields.
RSFields(t) ==
  /\ up /\ t \in opened
  /\ fl[t].pc = "idle"
  /\ mem[t].flds # flds[t]
  /\ IF mem[t].cells = EmptyBag
     THEN \* (if the offset moved, the offset file is written next: OffWrite)
          /\ mem' = [mem EXCEPT ![t].flds = flds[t]]
          /\ UNCHANGED fl
     ELSE /\ mem' = [mem EXCEPT ![t].flds = flds[t],
                                ![t].cells = OnFields(@, flds[t])]
          /\ fl' = [fl EXCEPT ![t] = [pc |-> "pre"]]
  /\ UNCHANGED <<wal, clock, up, opened, rd, pend, cur, disk, offFile, flushCount, where, flds, nextFile>>

AlterWhere(t, w) ==
  /\ up /\ t \in opened
  /\ w # where[t]
  /\ where' = [where EXCEPT ![t] = w]
  /\ UNCHANGED <<wal, clock, up, opened, rd, pend, mem, cur, disk, offFile, fl, flushCount, flds, nextFile>>

----------------------------------------------------------------------------
(* Crash and recovery *)

\* kill -9: everything volatile is lost; the WAL (synced), the table
\* directories and the offset files survive.  A temp file that was not
\* renamed is not in the table directory.
Crash ==
  /\ up
  /\ up' = FALSE
  /\ opened' = {}
  /\ UNCHANGED <<wal, clock, rd, pend, mem, cur, disk, offFile, fl, flushCount, where, flds, nextFile>>

\* Clean Close (zenodb.go:334, row_store.go:303-307): every row store does a
\* final forced flush with whatever it has applied (ordinary flush actions,
\* taken before this step); Close is the final step.
Close ==
  /\ up
  /\ \A t \in opened : fl[t].pc = "idle"
  /\ up' = FALSE
  /\ opened' = {}
  /\ UNCHANGED <<wal, clock, rd, pend, mem, cur, disk, offFile, fl, flushCount, where, flds, nextFile>>

\* NewDB (zenodb.go:193-309): with VirtualTime the clock starts at the zero time
Start ==
  /\ ~up
  /\ up' = TRUE
  /\ opened' = {}
  /\ clock' = 0
  /\ UNCHANGED <<wal, rd, pend, mem, cur, disk, offFile, fl, flushCount, where, flds, nextFile>>

\* CreateTable -> openRowStore (table.go:97-182, row_store.go:98-186): the
\* newest file wins, its header offsets advanced by the offset file (:156);
\* the WAL reader resumes after that offset (table.go:178, :307); the schema
\* is the one given now.
Newest(t) == IF DOMAIN disk[t] = {} THEN 0
             ELSE CHOOSE i \in DOMAIN disk[t] : \A j \in DOMAIN disk[t] : j <= i
RecoveredOff(t) == Max2(IF Newest(t) = 0 THEN 0 ELSE disk[t][Newest(t)].off, offFile[t])
Open(t, w, fs) ==
  /\ up /\ t \notin opened
  /\ opened' = opened \cup {t}
  /\ cur' = [cur EXCEPT ![t] = Newest(t)]
  /\ mem' = [mem EXCEPT ![t] = EmptyMem(RecoveredOff(t), fs)]
  /\ rd'  = [rd EXCEPT ![t] = RecoveredOff(t)]
  /\ pend' = [pend EXCEPT ![t] = <<>>]
  /\ fl' = [fl EXCEPT ![t] = IdleFlush]
  /\ flushCount' = [flushCount EXCEPT ![t] = 0]
  /\ where' = [where EXCEPT ![t] = w]
  /\ flds' = [flds EXCEPT ![t] = fs]
  /\ UNCHANGED <<wal, clock, up, disk, offFile, nextFile>>

----------------------------------------------------------------------------
(* Reference semantics (from the property statements, not from the code) *)

\* The contents of table t after the first n WAL entries for a static schema
\* and no expiry: every accepted point's main insert once and `extras(p)'
\* extra inserts.  With extras = ArrayLen - 1 this is the statement of C01
\* (every value of every accepted point aggregated exactly once); with
\* extras = Extras it is the crash-free outcome of the code as it stands.
RECURSIVE ExpectedWith(_, _, _)
ExpectedWith(t, n, prop) ==
  IF n = 0 THEN EmptyBag
  ELSE LET p == wal[n]
       IN IF where[t] \in p.sat /\ p.vs # {}
          THEN ExpectedWith(t, n - 1, prop) (+) MainCells(t, p, flds[t])
                 (+) Times(ExtraCells(t, p, flds[t]),
                           IF prop THEN ArrayLen(p) - 1 ELSE Extras(p))
          ELSE ExpectedWith(t, n - 1, prop)

Expected(t, n)  == ExpectedWith(t, n, TRUE)      \* the property (C01)
ExpectedS(t, n) == ExpectedWith(t, n, FALSE)     \* the code, crash-free

CaughtUp(t) == up /\ t \in opened /\ rd[t] = Len(wal) /\ pend[t] = <<>>

=============================================================================
