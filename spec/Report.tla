------------------------------- MODULE Report -------------------------------
(***************************************************************************)
(* C13: incomplete results are never presented as complete.                 *)
(*                                                                           *)
(* A cluster query (cluster_query.go queryCluster) fans out to the single-  *)
(* use handler of every partition, passes the rows it receives on to the    *)
(* consumer and reports [successful, missing, err].  Every partition has a  *)
(* behaviour (the fault the harness injects into its handler):              *)
(*   "ok"     answers with all its rows                                     *)
(*   "absent" no handler is registered                                      *)
(*   "err"    fails after K rows (K = 0: before the first)                  *)
(*   "stall"  stops answering after K rows until the leader's time-out      *)
(*   "retry"  fails with a retriable error before the first row, once; the  *)
(*            next handler of the partition answers                         *)
(* The consumer may stop the query after Limit rows (LIMIT: not an          *)
(* omission).  One step per critical section of the leader's result loop.   *)
(* The same module describes the embedded scan with a deadline (Scan...) and  *)
(* the web cache entry (Web...) that wrap a query.                             *)
(***************************************************************************)
EXTENDS Naturals, Sequences, FiniteSets, TLC, Json

CONSTANTS P,          \* number of partitions
          MaxRows,    \* rows per partition 0 .. MaxRows
          Behaviours  \* the behaviours explored

Parts == 0 .. (P - 1)

VARIABLES beh,      \* beh[p] = [kind, k]        (chosen in Init)
          rows,     \* rows[p]: rows the partition holds for this query
          limit,    \* 0 = the consumer takes everything, n = stops after n rows
          st,       \* st[p] \in {"idle", "running", "done"}
          sent,     \* sent[p]: rows the leader received from p
          delivered,\* delivered[p]: rows handed to the consumer
          retried,  \* retried[p]: the retriable failure has happened
          stopped,  \* the consumer said "no more"
          fin       \* [done, successful, missing, err]
vars == <<beh, rows, limit, st, sent, delivered, retried, stopped, fin>>

BehSet == {[kind |-> b, k |-> k] : b \in Behaviours, k \in 0..1}
Init == /\ beh \in [Parts -> BehSet]
        /\ \A p \in Parts : (beh[p].kind \in {"ok", "absent", "retry"} => beh[p].k = 0)
        /\ rows \in [Parts -> 0..MaxRows]
        /\ \A p \in Parts : beh[p].k <= rows[p]
        /\ limit \in {0, 1}
        /\ st = [p \in Parts |-> "idle"] /\ sent = [p \in Parts |-> 0] /\ delivered = [p \in Parts |-> 0]
        /\ retried = [p \in Parts |-> FALSE]
        /\ stopped = FALSE
        /\ fin = [done |-> FALSE, successful |-> 0, missing |-> {}, err |-> FALSE]

Total == LET RECURSIVE S(_) S(n) == IF n = 0 THEN 0 ELSE delivered[n - 1] + S(n - 1) IN S(P)

\* the goroutine of partition p asks for a handler (remoteQueryHandlerForPartition)
Dispatch(p) ==
  /\ st[p] = "idle" /\ ~fin.done
  /\ IF beh[p].kind = "absent"
     THEN /\ st' = [st EXCEPT ![p] = "done"]
          /\ fin' = [fin EXCEPT !.missing = @ \cup {p}]
     ELSE /\ st' = [st EXCEPT ![p] = "running"] /\ UNCHANGED fin
  /\ UNCHANGED <<beh, rows, limit, sent, delivered, retried, stopped>>

\* a retriable failure before the first row: the loop takes the next handler
Retry(p) ==
  /\ st[p] = "running" /\ beh[p].kind = "retry" /\ ~retried[p] /\ sent[p] = 0 /\ ~fin.done
  /\ retried' = [retried EXCEPT ![p] = TRUE]
  /\ UNCHANGED <<beh, rows, limit, st, sent, delivered, stopped, fin>>

\* ... or finds that no other handler of the partition is registered
RetryNoHandler(p) ==
  /\ st[p] = "running" /\ beh[p].kind = "retry" /\ ~retried[p] /\ sent[p] = 0 /\ ~fin.done
  /\ st' = [st EXCEPT ![p] = "done"]
  /\ fin' = [fin EXCEPT !.missing = @ \cup {p}]
  /\ UNCHANGED <<beh, rows, limit, sent, delivered, retried, stopped>>

\* the injected fault takes effect only if the handler gets as far as row k
\* (the harness's wrapper looks at the row counter in the row callback; k = 0
\* acts before the query starts)
Fails(p) == beh[p].kind = "err" /\ (beh[p].k = 0 \/ beh[p].k < rows[p])
Stalls(p) == beh[p].kind = "stall" /\ (beh[p].k = 0 \/ beh[p].k < rows[p])
CanSend(p) == /\ st[p] = "running" /\ sent[p] < rows[p]
              /\ (Fails(p) \/ Stalls(p) => sent[p] < beh[p].k)
              /\ (beh[p].kind = "retry" => retried[p])
\* one row of p reaches the result loop and is handed on unless the consumer stopped
Row(p) ==
  /\ CanSend(p) /\ ~fin.done
  /\ sent' = [sent EXCEPT ![p] = @ + 1]
  /\ IF stopped THEN UNCHANGED <<delivered, stopped>>
     ELSE /\ delivered' = [delivered EXCEPT ![p] = @ + 1]
          /\ stopped' = (limit > 0 /\ Total + 1 >= limit)
  /\ UNCHANGED <<beh, rows, limit, st, retried, fin>>

\* the final result of partition p arrives (fail() / finish()); a stalled
\* partition does not get here before the leader's timer
PartEnd(p) ==
  /\ st[p] = "running" /\ ~fin.done /\ ~Stalls(p)
  /\ ~CanSend(p) \/ stopped
  /\ beh[p].kind = "retry" => retried[p]
  /\ st' = [st EXCEPT ![p] = "done"]
  /\ fin' = IF Fails(p) /\ sent[p] = beh[p].k
            THEN [fin EXCEPT !.missing = @ \cup {p}]
            ELSE [fin EXCEPT !.successful = @ + 1]
  /\ UNCHANGED <<beh, rows, limit, sent, delivered, retried, stopped>>

\* the leader's timer fires: every partition still pending is reported missing
Timeout ==
  /\ ~fin.done /\ \E p \in Parts : st[p] # "done"
  /\ \E p \in Parts : st[p] = "running" /\ Stalls(p) /\ sent[p] = beh[p].k
  /\ fin' = [fin EXCEPT !.done = TRUE, !.missing = @ \cup {p \in Parts : st[p] # "done"}]
  /\ UNCHANGED <<beh, rows, limit, st, sent, delivered, retried, stopped>>

Finish ==
  /\ ~fin.done /\ \A p \in Parts : st[p] = "done"
  /\ fin' = [fin EXCEPT !.done = TRUE]
  /\ UNCHANGED <<beh, rows, limit, st, sent, delivered, retried, stopped>>

Next == \/ \E p \in Parts : Dispatch(p) \/ Retry(p) \/ RetryNoHandler(p) \/ Row(p) \/ PartEnd(p)
        \/ Timeout \/ Finish
Spec == Init /\ [][Next]_vars

----------------------------------------------------------------------------
\* the caller is told: an error, or the statistics show that not every partition answered
Told == fin.err \/ fin.missing # {} \/ fin.successful < P
\* nothing the consumer asked for is missing
Complete == stopped \/ \A p \in Parts : delivered[p] = rows[p]
\* C13
NeverSilentlyIncomplete == fin.done => (Complete \/ Told)
\* every partition is accounted for exactly once
ReportExact == fin.done => fin.successful + Cardinality(fin.missing) = P

\* export of the finished states: vector and report
Emit == fin.done => PrintT(<<"ZVREP", ToJson([beh |-> beh, rows |-> rows, limit |-> limit, fin |-> fin,
                                               complete |-> Complete, told |-> Told, delivered |-> delivered])>>)

----------------------------------------------------------------------------
(* The embedded scan under a deadline: N rows, the deadline passes while row  *)
(* D is being handled (D = 0: already expired, D > N: never).  The scan may   *)
(* notice at the next guard; what matters is the report.                      *)
ScanOutcomes(N, D) ==
  IF D > N THEN {[got |-> N, err |-> FALSE]}
  ELSE {[got |-> g, err |-> TRUE] : g \in D .. N} \cup (IF D = N THEN {[got |-> N, err |-> FALSE]} ELSE {})
ScanTold(o, N) == o.got < N => o.err

(* The web cache entry of a query: pending -> success | error; a truncated    *)
(* result must never become a success entry.                                   *)
WebOutcomes(complete, execErr) ==
  IF execErr THEN {[status |-> "error"]}
  ELSE {[status |-> "success", complete |-> complete]}
WebTold(o) == o.status = "error" \/ o.complete
=============================================================================
