-------------------------------- MODULE Web --------------------------------
(***************************************************************************)
(* The life of a query in the HTTP API (web/query.go, web/cache.go): not    *)
(* one of the listed properties, but the machinery C13 and C19 pass        *)
(* through.                                                                 *)
(*                                                                           *)
(* A request for a query text either finds a live cache entry (pending,     *)
(* success or error) and answers with it, or begins a new pending entry     *)
(* with a fresh permalink and queues the query; `Cache-control: no-cache`   *)
(* always begins a new entry.  Execution replaces the pending entry by a    *)
(* success entry holding the result at that moment or by an error entry.    *)
(* Entries expire after the TTL; an expired entry is recomputed by the next *)
(* request.  /cached/<permalink> answers with the entry of that permalink   *)
(* whatever has happened to the query text's current entry since.           *)
(*                                                                           *)
(* `data' is the version of the table's contents (it grows with inserts);   *)
(* a success entry remembers the version it was computed from.              *)
(***************************************************************************)
EXTENDS Naturals, Sequences, FiniteSets, TLC, Json

CONSTANTS Atomic,      \* TRUE: a request that begins an entry is executed before anything else (/immediate, sequential client)
          Queries,     \* query texts
          MaxVersion,  \* the data changes 0 .. MaxVersion
          TTL, MaxNow, MaxSteps,
          Failing      \* queries whose execution ends with an error

VARIABLES now, version,
          cur,      \* [Queries -> permalink of the current entry or 0]
          entry,    \* [permalink -> [q, status, v, exp]]   (permalinks 1, 2, ...)
          queue,    \* permalinks waiting to be executed (a batch runs concurrently: any order)
          busy,     \* requests made since the last tick (the replay paces itself by ticks)
          hist
vars == <<now, version, cur, entry, queue, busy, hist>>
view == <<now, version, cur, entry, queue, busy>>

H(e) == hist' = Append(hist, e)
Perms == DOMAIN entry
NextPerm == Cardinality(Perms) + 1
Live(p) == p # 0 /\ now < entry[p].exp

Init == /\ now = 0 /\ version = 0 /\ cur = [q \in Queries |-> 0] /\ entry = <<>> /\ queue = {} /\ busy = 0 /\ hist = <<>>

\* what a request is answered with: the entry it ends up with (the handler waits for pending ones)
Begin(q) == /\ entry' = Append(entry, [q |-> q, status |-> "pending", v |-> 0, exp |-> now + TTL])
            /\ cur' = [cur EXCEPT ![q] = NextPerm]
            /\ queue' = queue \cup {NextPerm}
Request(q, nocache) ==
  /\ Len(hist) < MaxSteps /\ busy < 2 /\ (Atomic => queue = {})
  /\ busy' = busy + 1
  /\ IF ~nocache /\ Live(cur[q])
     THEN /\ UNCHANGED <<cur, entry, queue>>
          /\ H([a |-> "Request", q |-> q, nocache |-> nocache, hit |-> TRUE, perm |-> cur[q],
                status |-> entry[cur[q]].status, v |-> entry[cur[q]].v])
     ELSE /\ Begin(q)
          \* (status and version of the answer when the execution follows at once)
          /\ H([a |-> "Request", q |-> q, nocache |-> nocache, hit |-> FALSE, perm |-> NextPerm,
                status |-> IF q \in Failing THEN "error" ELSE "success", v |-> version])
  /\ UNCHANGED <<now, version>>

\* a queued query is executed against the data as it is now; cache.put makes the
\* finished entry the text's current one - also when a newer entry has been begun
\* meanwhile - unless it finished after its own expiration, in which case the text
\* has no current entry any more
Exec(p) ==
  /\ p \in queue /\ Len(hist) < MaxSteps
  /\ LET q == entry[p].q
     IN /\ entry' = [entry EXCEPT ![p] = [@ EXCEPT !.status = IF q \in Failing THEN "error" ELSE "success", !.v = version]]
        /\ cur' = [cur EXCEPT ![q] = IF now < entry[p].exp THEN p ELSE 0]
        /\ H([a |-> "Exec", perm |-> p])
  /\ queue' = queue \ {p}
  /\ UNCHANGED <<now, version, busy>>

Cached(p) == /\ p \in Perms /\ Len(hist) < MaxSteps
             /\ H([a |-> "Cached", perm |-> p, status |-> entry[p].status, v |-> entry[p].v])
             /\ (Atomic => queue = {})
             /\ UNCHANGED <<now, version, cur, entry, queue, busy>>
Tick == /\ now < MaxNow /\ Len(hist) < MaxSteps /\ now' = now + 1 /\ busy' = 0 /\ H([a |-> "Tick"])
        /\ (Atomic => queue = {})
        /\ UNCHANGED <<version, cur, entry, queue>>
Insert == /\ version < MaxVersion /\ Len(hist) < MaxSteps /\ version' = version + 1 /\ H([a |-> "Insert"])
          /\ (Atomic => queue = {})
          /\ UNCHANGED <<now, cur, entry, queue, busy>>

Next == \/ \E q \in Queries, n \in BOOLEAN : Request(q, n)
        \/ Tick \/ Insert
        \/ \E p \in Perms : Cached(p) \/ Exec(p)
Spec == Init /\ [][Next]_vars

----------------------------------------------------------------------------
\* a finished entry never changes again; permalinks are never reused
Immutable == [][\A p \in Perms : entry[p].status # "pending" => entry'[p] = entry[p]]_vars
\* a success entry holds a result of the data no newer than now and not older than its own beginning
FreshWhenComputed == \A p \in Perms : entry[p].status = "success" => entry[p].v <= version
\* the current entry of a text is one of that text
CurOfText == \A q \in Queries : cur[q] # 0 => entry[cur[q]].q = q
\* a failing query never yields a success entry (C13 at this level)
NoSuccessForFailing == \A p \in Perms : entry[p].q \in Failing => entry[p].status # "success"

Emit == Len(hist) = MaxSteps => PrintT(<<"ZVWEB", ToJson(hist)>>)
=============================================================================
