-------------------------------- MODULE Wire --------------------------------
(***************************************************************************)
(* C20: what crosses the rpc boundary keeps its meaning.                    *)
(*                                                                           *)
(* One remote query of one partition (rpc/server HandleRemoteQueries on the *)
(* leader, rpc.Client.ProcessRemoteQuery on the follower): the leader sends *)
(* the query; the follower answers with its field list, rows and one        *)
(* closing message (statistics or an error) over a lossless FIFO channel.   *)
(* Messages are abstract values (digests of the decoded objects): the law   *)
(* of the transport and its codec is that what is received is what was sent,*)
(* in order.  The follower may fail after any number of rows; the closing   *)
(* message then carries the error and the leader's handler must report it   *)
(* (this is also the rpc part of C13).                                      *)
(***************************************************************************)
EXTENDS Naturals, Sequences, TLC

CONSTANTS Digests,   \* abstract message contents
          MaxRows

VARIABLES fst,    \* follower: "idle" | "queried" | "streaming" | "ended"
          lst,    \* leader's handler: "idle" | "asked" | "gotfields" | "ended"
          chan,   \* messages sent by the follower and not yet received
          sent,   \* everything the follower sent for this query
          got,    \* everything the leader's handler passed on
          ferr,   \* the follower's query ended with an error
          lerr,   \* the leader's handler returned an error
          sql,    \* the query text: as sent, as received
          lstop   \* the leader's consumer has said that it has enough (LIMIT)
vars == <<fst, lst, chan, sent, got, ferr, lerr, sql, lstop>>

Msg(k, d) == [kind |-> k, d |-> d]

Init == /\ fst = "idle" /\ lst = "idle" /\ chan = <<>> /\ sent = <<>> /\ got = <<>>
        /\ ferr = FALSE /\ lerr = FALSE /\ sql = [sent |-> "", rcvd |-> ""] /\ lstop = FALSE

LQuery(q) == /\ lst = "idle" /\ lst' = "asked" /\ sql' = [sql EXCEPT !.sent = q]
             /\ UNCHANGED <<fst, chan, sent, got, ferr, lerr, lstop>>
FQuery(q) == /\ fst = "idle" /\ lst = "asked" /\ q = sql.sent       \* the text arrives unchanged
             /\ fst' = "queried" /\ sql' = [sql EXCEPT !.rcvd = q]
             /\ UNCHANGED <<lst, chan, sent, got, ferr, lerr, lstop>>
Send(m) == chan' = Append(chan, m) /\ sent' = Append(sent, m)
FFields(d) == /\ fst = "queried" /\ fst' = "streaming" /\ Send(Msg("fields", d))
              /\ UNCHANGED <<lst, got, ferr, lerr, sql, lstop>>
FRow(d) == /\ fst = "streaming" /\ Len(sent) <= MaxRows /\ Send(Msg("row", d))
           /\ UNCHANGED <<fst, lst, got, ferr, lerr, sql, lstop>>
\* the follower's query function returns: one closing message, with the error if any
FEnd(e) == /\ fst \in {"queried", "streaming"} /\ fst' = "ended" /\ ferr' = e
           /\ Send(Msg("end", IF e THEN "error" ELSE ""))
           /\ UNCHANGED <<lst, got, lerr, sql, lstop>>
\* the leader's handler takes the next message off the channel
Recv(k) == chan # <<>> /\ Head(chan).kind = k /\ chan' = Tail(chan) /\ got' = Append(got, Head(chan))
LFields == /\ lst = "asked" /\ Recv("fields") /\ lst' = "gotfields"
           /\ UNCHANGED <<fst, sent, ferr, lerr, sql, lstop>>
LRow == /\ lst = "gotfields" /\ Recv("row")
        /\ UNCHANGED <<fst, lst, sent, ferr, lerr, sql, lstop>>
LEnd == /\ lst \in {"asked", "gotfields"} /\ Recv("end") /\ lst' = "ended"
        /\ lerr' = (Head(chan).d = "error")
        /\ UNCHANGED <<fst, sent, ferr, sql, lstop>>

\* the connection to the follower is gone (a registered handler whose follower has
\* given up waiting): the handler returns an error of its own
LFail == /\ lst \in {"asked", "gotfields"} /\ lst' = "ended" /\ lerr' = TRUE
         /\ UNCHANGED <<fst, chan, sent, got, ferr, sql, lstop>>

\* the consumer has what it wanted (LIMIT): the handler returns without reading the rest
ConsumerStops == /\ lst = "gotfields" /\ got # <<>> /\ ~lstop /\ lstop' = TRUE
                 /\ UNCHANGED <<fst, lst, chan, sent, got, ferr, lerr, sql>>
LStop == /\ lst = "gotfields" /\ lstop /\ lst' = "ended" /\ lerr' = FALSE /\ lstop' = lstop
         /\ UNCHANGED <<fst, chan, sent, got, ferr, sql>>

Next == \/ \E q \in Digests : LQuery(q) \/ FQuery(q)
        \/ \E d \in Digests : FFields(d) \/ FRow(d)
        \/ \E e \in BOOLEAN : FEnd(e)
        \/ LFields \/ LRow \/ LEnd \/ LFail \/ LStop \/ ConsumerStops
Spec == Init /\ [][Next]_vars

----------------------------------------------------------------------------
IsPrefix(s, t) == Len(s) <= Len(t) /\ \A i \in 1..Len(s) : s[i] = t[i]
\* nothing is lost, duplicated, reordered or altered on the way
Lossless == IsPrefix(got, sent) /\ sent = got \o chan
\* fields precede rows, one closing message, nothing after it
WellFormed == \A i \in 1..Len(sent) :
                 /\ (sent[i].kind = "fields" => i = 1)
                 /\ (sent[i].kind = "row" => i > 1 /\ sent[1].kind = "fields")
                 /\ (sent[i].kind = "end" => i = Len(sent))
\* a failure of the follower is reported by the leader's handler (C13 over rpc)
ErrorReported == lst = "ended" => (lerr \/ lstop \/ (~ferr /\ fst = "ended" /\ got = sent))
QueryIntact == fst # "idle" => sql.rcvd = sql.sent
=============================================================================
