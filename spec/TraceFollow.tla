----------------------------- MODULE TraceFollow -----------------------------
(***************************************************************************)
(* Trace validation of the leader's follower bookkeeping (cluster_follow.go *)
(* processFollowers) against the hand-over rules of spec/Cluster.tla, from  *)
(* the events zvcluster records: what a follower tells the leader when it   *)
(* connects (per table the offset of the last entry offered, and the last   *)
(* offset delivered on the link), the starting point the leader computes    *)
(* per (follower, table) (hook ldr.joined), every entry the leader's reader *)
(* processes with the followers it is included for (hook ldr.entry), and    *)
(* every entry a link delivers.  Offsets are entry indices of the leader's  *)
(* WAL (0 = none).  The routing of an entry is not known here; the rules    *)
(* below are the ones that hold whatever it is:                             *)
(*   HandOver      start(f, t) = max(offset of t in the message, earliest)  *)
(*   RestartAt     after a join the reader continues right after the        *)
(*                 smallest starting point of all followers' tables         *)
(*   Sequential    otherwise it continues with the next entry               *)
(*   AfterStart    an entry is included for f only if it lies after the     *)
(*                 starting point of one of f's tables                      *)
(*   Once          and at most once since f joined                          *)
(*   Redundant     two followers of one partition that both started before  *)
(*                 an entry are included for it together or not at all      *)
(*   InOrder       a link delivers only entries its follower was included   *)
(*                 for, in non-decreasing order                             *)
(***************************************************************************)
EXTENDS Integers, Sequences, FiniteSets, FiniteSetsExt, TLC, Json, IOUtils

Trace == ndJsonDeserialize(IOEnv.ZV_TRACE)

VARIABLES l, scn,
          msg,      \* "leader/follower" -> the last follow message [tabs, earliest]
          start,    \* "leader/follower" -> [table -> starting point], as computed by the leader at the last join
          incl,     \* "leader/follower" -> entries included since the last join
          last,     \* "leader/follower" -> last entry delivered on the current link
          rd,       \* leader -> last entry processed (-1: the reader restarts)
          fresh,    \* "leader/follower" that joined since the leader last processed an entry
          fails
vars == <<l, scn, msg, start, incl, last, rd, fresh, fails>>

Line == Trace[l]
IsEv(e) == l <= Len(Trace) /\ Line.a = e /\ l' = l + 1
Key(x) == ToString(x.l) \o "/" \o x.f
Max2(a, b) == IF a >= b THEN a ELSE b
Upd(f, k, v) == [x \in DOMAIN f \cup {k} |-> IF x = k THEN v ELSE f[x]]
PartOfName(f) == SubSeq(f, 1, 2)      \* "f<p>_<k>": followers of one partition share the prefix (p < 10)
LeaderOf(k) == SubSeq(k, 1, 1)

Init == /\ l = 1 /\ scn = "" /\ msg = <<>> /\ start = <<>> /\ incl = <<>> /\ last = <<>> /\ rd = <<>> /\ fresh = {} /\ fails = {}

TReset == /\ IsEv("Reset") /\ scn' = Line.scn
          /\ msg' = <<>> /\ start' = <<>> /\ incl' = <<>> /\ last' = <<>> /\ rd' = <<>> /\ fresh' = {} /\ UNCHANGED fails

TConnect == /\ IsEv("connect")
            /\ msg' = Upd(msg, Key(Line), [tabs |-> Line.tabs, earliest |-> Line.earliest])
            /\ last' = Upd(last, Key(Line), 0)
            /\ UNCHANGED <<scn, start, incl, rd, fresh, fails>>

\* HandOver
TJoin == /\ IsEv("join") /\ Key(Line) \in DOMAIN msg
         /\ Line.t \in DOMAIN msg[Key(Line)].tabs
         /\ Line.off = Max2(msg[Key(Line)].tabs[Line.t], msg[Key(Line)].earliest)
         /\ start' = Upd(start, Key(Line), Upd(IF Key(Line) \in DOMAIN start THEN start[Key(Line)] ELSE <<>>, Line.t, Line.off))
         /\ incl' = Upd(incl, Key(Line), {})
         /\ rd' = Upd(rd, ToString(Line.l), -1)
         /\ fresh' = fresh \cup {Key(Line)}
         /\ UNCHANGED <<scn, msg, last, fails>>

Starts(ld) == UNION {{start[k][t] : t \in DOMAIN start[k]} : k \in {x \in DOMAIN start : LeaderOf(x) = ld}}
MinStart(k) == Min({start[k][t] : t \in DOMAIN start[k]})
MaxStart(k) == Max({start[k][t] : t \in DOMAIN start[k]})
TEntry ==
  /\ IsEv("entry")
  /\ LET ld == ToString(Line.l)
         ks == {ld \o "/" \o f : f \in {Line.incl[j] : j \in DOMAIN Line.incl}}
         joined == {k \in DOMAIN start : LeaderOf(k) = ld}
     IN /\ ld \in DOMAIN rd
        \* RestartAt / Sequential.  The reader restarts after the smallest *current* position
        \* of all followers' tables; positions of followers that joined earlier have advanced
        \* by an amount that depends on the routing, so only the bounds are known here: not
        \* before the smallest starting point ever recorded, not after the smallest starting
        \* point of the followers that have just joined.
        /\ IF rd[ld] = -1
           THEN /\ Line.i >= Min(Starts(ld)) + 1
                /\ Line.i <= Min({MinStart(k) : k \in {x \in joined : x \in fresh}}) + 1
           ELSE Line.i = rd[ld] + 1
        \* AfterStart, Once
        /\ \A k \in ks : k \in joined /\ Line.i > MinStart(k) /\ Line.i \notin incl[k]
        \* Redundant
        /\ \A k1, k2 \in joined :
             (PartOfName(SubSeq(k1, 3, Len(k1))) = PartOfName(SubSeq(k2, 3, Len(k2))) /\ DOMAIN start[k1] = DOMAIN start[k2]
              /\ Line.i > MaxStart(k1) /\ Line.i > MaxStart(k2) /\ Line.i \notin incl[k1] /\ Line.i \notin incl[k2])
             => (k1 \in ks <=> k2 \in ks)
        /\ incl' = [k \in DOMAIN incl |-> IF k \in ks THEN incl[k] \cup {Line.i} ELSE incl[k]]
        /\ rd' = Upd(rd, ld, Line.i)
        /\ fresh' = {k \in fresh : LeaderOf(k) # ld}
  /\ UNCHANGED <<scn, msg, start, last, fails>>

\* InOrder
TDeliver == /\ IsEv("deliver") /\ Key(Line) \in DOMAIN incl
            \* (an entry that two of the follower's tables want is queued once per table:
            \* the same entry may be delivered again, the follower ignores the repetition)
            /\ Line.i \in incl[Key(Line)] /\ Line.i >= last[Key(Line)]
            /\ last' = Upd(last, Key(Line), Line.i)
            /\ UNCHANGED <<scn, msg, start, incl, rd, fresh, fails>>

\* the leader restarts: it has forgotten its followers
TLRestart == /\ IsEv("lrestart")
             /\ LET ld == ToString(Line.l)
                    keep(f) == [k \in {x \in DOMAIN f : LeaderOf(x) # ld} |-> f[k]]
                IN /\ start' = keep(start) /\ incl' = keep(incl) /\ msg' = keep(msg) /\ last' = keep(last)
                   /\ rd' = [k \in DOMAIN rd \ {ld} |-> rd[k]]
                   /\ fresh' = {k \in fresh : LeaderOf(k) # ld}
             /\ UNCHANGED <<scn, fails>>

Normal == TReset \/ TConnect \/ TJoin \/ TEntry \/ TDeliver \/ TLRestart
NextReset == LET S == {j \in (l + 1)..Len(Trace) : Trace[j].a = "Reset"} IN IF S = {} THEN Len(Trace) + 1 ELSE Min(S)
TSkip == /\ l <= Len(Trace) /\ ~ENABLED Normal
         /\ fails' = fails \cup {[scn |-> scn, at |-> l]}
         /\ l' = NextReset
         /\ UNCHANGED <<scn, msg, start, incl, last, rd, fresh>>
TraceSpec == Init /\ [][Normal \/ TSkip]_vars
Done == (l = Len(Trace) + 1) => PrintT(<<"ZVTRACE", ToJson([lines |-> Len(Trace), fails |-> fails])>>)
=============================================================================
