---- MODULE MCStore_exh_TTrace_1790180251 ----
EXTENDS Sequences, TLCExt, MCStore_exh, Toolbox, Naturals, TLC

_expression ==
    LET MCStore_exh_TEExpression == INSTANCE MCStore_exh_TEExpression
    IN MCStore_exh_TEExpression!expression
----

_trace ==
    LET MCStore_exh_TETrace == INSTANCE MCStore_exh_TETrace
    IN MCStore_exh_TETrace!trace
----

_inv ==
    ~(
        TLCGet("level") = Len(_TETrace)
        /\
        cur = ([a |-> 0, b |-> 0])
        /\
        wal = (<<[id |-> 1, ts |-> 1, k |-> 1, sat |-> {"all", "w1"}, vs |-> {"w"}, n |-> 1]>>)
        /\
        fl = ([a |-> [pc |-> "idle"], b |-> [pc |-> "idle"]])
        /\
        offFile = ([a |-> 0, b |-> 0])
        /\
        clock = (1)
        /\
        crashes = (0)
        /\
        nextFile = (1)
        /\
        disk = ([a |-> <<>>, b |-> <<>>])
        /\
        rd = ([a |-> 1, b |-> 0])
        /\
        mem = ([a |-> [flds |-> <<"p", "f">>, off |-> 0, cells |-> <<>>, changed |-> FALSE], b |-> [flds |-> <<"p">>, off |-> 0, cells |-> <<>>, changed |-> FALSE]])
        /\
        flds = ([a |-> <<"p", "f">>, b |-> <<"p">>])
        /\
        where = ([a |-> "all", b |-> "w1"])
        /\
        up = (TRUE)
        /\
        pend = ([a |-> <<[data |-> TRUE, idx |-> 1, main |-> 1, extra |-> 0]>>, b |-> <<>>])
        /\
        flushCount = ([a |-> 0, b |-> 0])
    )
----

_init ==
    /\ cur = _TETrace[1].cur
    /\ nextFile = _TETrace[1].nextFile
    /\ flds = _TETrace[1].flds
    /\ offFile = _TETrace[1].offFile
    /\ pend = _TETrace[1].pend
    /\ clock = _TETrace[1].clock
    /\ disk = _TETrace[1].disk
    /\ rd = _TETrace[1].rd
    /\ fl = _TETrace[1].fl
    /\ crashes = _TETrace[1].crashes
    /\ wal = _TETrace[1].wal
    /\ up = _TETrace[1].up
    /\ flushCount = _TETrace[1].flushCount
    /\ where = _TETrace[1].where
    /\ mem = _TETrace[1].mem
----

_next ==
    /\ \E i,j \in DOMAIN _TETrace:
        /\ \/ /\ j = i + 1
              /\ i = TLCGet("level")
        /\ cur  = _TETrace[i].cur
        /\ cur' = _TETrace[j].cur
        /\ nextFile  = _TETrace[i].nextFile
        /\ nextFile' = _TETrace[j].nextFile
        /\ flds  = _TETrace[i].flds
        /\ flds' = _TETrace[j].flds
        /\ offFile  = _TETrace[i].offFile
        /\ offFile' = _TETrace[j].offFile
        /\ pend  = _TETrace[i].pend
        /\ pend' = _TETrace[j].pend
        /\ clock  = _TETrace[i].clock
        /\ clock' = _TETrace[j].clock
        /\ disk  = _TETrace[i].disk
        /\ disk' = _TETrace[j].disk
        /\ rd  = _TETrace[i].rd
        /\ rd' = _TETrace[j].rd
        /\ fl  = _TETrace[i].fl
        /\ fl' = _TETrace[j].fl
        /\ crashes  = _TETrace[i].crashes
        /\ crashes' = _TETrace[j].crashes
        /\ wal  = _TETrace[i].wal
        /\ wal' = _TETrace[j].wal
        /\ up  = _TETrace[i].up
        /\ up' = _TETrace[j].up
        /\ flushCount  = _TETrace[i].flushCount
        /\ flushCount' = _TETrace[j].flushCount
        /\ where  = _TETrace[i].where
        /\ where' = _TETrace[j].where
        /\ mem  = _TETrace[i].mem
        /\ mem' = _TETrace[j].mem

\* Uncomment the ASSUME below to write the states of the error trace
\* to the given file in Json format. Note that you can pass any tuple
\* to `JsonSerialize`. For example, a sub-sequence of _TETrace.
    \* ASSUME
    \*     LET J == INSTANCE Json
    \*         IN J!JsonSerialize("MCStore_exh_TTrace_1790180251.json", _TETrace)

=============================================================================

 Note that you can extract this module `MCStore_exh_TEExpression`
  to a dedicated file to reuse `expression` (the module in the 
  dedicated `MCStore_exh_TEExpression.tla` file takes precedence 
  over the module `MCStore_exh_TEExpression` below).

---- MODULE MCStore_exh_TEExpression ----
EXTENDS Sequences, TLCExt, MCStore_exh, Toolbox, Naturals, TLC

expression == 
    [
        \* To hide variables of the `MCStore_exh` spec from the error trace,
        \* remove the variables below.  The trace will be written in the order
        \* of the fields of this record.
        cur |-> cur
        ,nextFile |-> nextFile
        ,flds |-> flds
        ,offFile |-> offFile
        ,pend |-> pend
        ,clock |-> clock
        ,disk |-> disk
        ,rd |-> rd
        ,fl |-> fl
        ,crashes |-> crashes
        ,wal |-> wal
        ,up |-> up
        ,flushCount |-> flushCount
        ,where |-> where
        ,mem |-> mem
        
        \* Put additional constant-, state-, and action-level expressions here:
        \* ,_stateNumber |-> _TEPosition
        \* ,_curUnchanged |-> cur = cur'
        
        \* Format the `cur` variable as Json value.
        \* ,_curJson |->
        \*     LET J == INSTANCE Json
        \*     IN J!ToJson(cur)
        
        \* Lastly, you may build expressions over arbitrary sets of states by
        \* leveraging the _TETrace operator.  For example, this is how to
        \* count the number of times a spec variable changed up to the current
        \* state in the trace.
        \* ,_curModCount |->
        \*     LET F[s \in DOMAIN _TETrace] ==
        \*         IF s = 1 THEN 0
        \*         ELSE IF _TETrace[s].cur # _TETrace[s-1].cur
        \*             THEN 1 + F[s-1] ELSE F[s-1]
        \*     IN F[_TEPosition - 1]
    ]

=============================================================================



Parsing and semantic processing can take forever if the trace below is long.
 In this case, it is advised to uncomment the module below to deserialize the
 trace from a generated binary file.

\*
\*---- MODULE MCStore_exh_TETrace ----
\*EXTENDS IOUtils, MCStore_exh, TLC
\*
\*trace == IODeserialize("MCStore_exh_TTrace_1790180251.bin", TRUE)
\*
\*=============================================================================
\*

---- MODULE MCStore_exh_TETrace ----
EXTENDS MCStore_exh, TLC

trace == 
    <<
    ([cur |-> [a |-> 0, b |-> 0],wal |-> <<>>,fl |-> [a |-> [pc |-> "idle"], b |-> [pc |-> "idle"]],offFile |-> [a |-> 0, b |-> 0],clock |-> 0,crashes |-> 0,nextFile |-> 1,disk |-> [a |-> <<>>, b |-> <<>>],rd |-> [a |-> 0, b |-> 0],mem |-> [a |-> [flds |-> <<"p", "f">>, off |-> 0, cells |-> <<>>, changed |-> FALSE], b |-> [flds |-> <<"p">>, off |-> 0, cells |-> <<>>, changed |-> FALSE]],flds |-> [a |-> <<"p", "f">>, b |-> <<"p">>],where |-> [a |-> "all", b |-> "w1"],up |-> TRUE,pend |-> [a |-> <<>>, b |-> <<>>],flushCount |-> [a |-> 0, b |-> 0]]),
    ([cur |-> [a |-> 0, b |-> 0],wal |-> <<[id |-> 1, ts |-> 1, k |-> 1, sat |-> {"all", "w1"}, vs |-> {"w"}, n |-> 1]>>,fl |-> [a |-> [pc |-> "idle"], b |-> [pc |-> "idle"]],offFile |-> [a |-> 0, b |-> 0],clock |-> 0,crashes |-> 0,nextFile |-> 1,disk |-> [a |-> <<>>, b |-> <<>>],rd |-> [a |-> 0, b |-> 0],mem |-> [a |-> [flds |-> <<"p", "f">>, off |-> 0, cells |-> <<>>, changed |-> FALSE], b |-> [flds |-> <<"p">>, off |-> 0, cells |-> <<>>, changed |-> FALSE]],flds |-> [a |-> <<"p", "f">>, b |-> <<"p">>],where |-> [a |-> "all", b |-> "w1"],up |-> TRUE,pend |-> [a |-> <<>>, b |-> <<>>],flushCount |-> [a |-> 0, b |-> 0]]),
    ([cur |-> [a |-> 0, b |-> 0],wal |-> <<[id |-> 1, ts |-> 1, k |-> 1, sat |-> {"all", "w1"}, vs |-> {"w"}, n |-> 1]>>,fl |-> [a |-> [pc |-> "idle"], b |-> [pc |-> "idle"]],offFile |-> [a |-> 0, b |-> 0],clock |-> 1,crashes |-> 0,nextFile |-> 1,disk |-> [a |-> <<>>, b |-> <<>>],rd |-> [a |-> 1, b |-> 0],mem |-> [a |-> [flds |-> <<"p", "f">>, off |-> 0, cells |-> <<>>, changed |-> FALSE], b |-> [flds |-> <<"p">>, off |-> 0, cells |-> <<>>, changed |-> FALSE]],flds |-> [a |-> <<"p", "f">>, b |-> <<"p">>],where |-> [a |-> "all", b |-> "w1"],up |-> TRUE,pend |-> [a |-> <<[data |-> TRUE, idx |-> 1, main |-> 1, extra |-> 0]>>, b |-> <<>>],flushCount |-> [a |-> 0, b |-> 0]])
    >>
----


=============================================================================

---- CONFIG MCStore_exh_TTrace_1790180251 ----
CONSTANTS
    Tables <- c_Tables
    Res <- c_Res
    Ret <- c_Ret
    Proj <- c_Proj
    InitWhere <- c_InitWhere
    InitFlds <- c_InitFlds
    Menu <- c_Menu
    Src <- c_Src
    ArrayDup = TRUE
    SplitApply = FALSE
    TruncEvery = 2
    MaxFlushes = 3
    MaxCrashes = 2
    Sorted = { FALSE }

INVARIANT
    _inv

CHECK_DEADLOCK
    \* CHECK_DEADLOCK off because of PROPERTY or INVARIANT above.
    FALSE

INIT
    _init

NEXT
    _next

CONSTANT
    _TETrace <- _trace

ALIAS
    _expression
=============================================================================
\* Generated on Wed Sep 23 16:17:32 UTC 2026