------------------------------ MODULE GenExpr ------------------------------
(* TLC as an evaluator: enumerates expression trees and update sequences,   *)
(* evaluates Data!Eval and writes one JSON case per line.  The harness      *)
(* (zvpure) accumulates the same updates with the real expr package, whole  *)
(* and split in two and three parts merged in every order, and compares.    *)
EXTENDS Data, Json, IOUtils, SequencesExt

CONSTANTS Depth2,     \* BOOLEAN: include binary expressions over all leaf pairs
          MaxUps,     \* longest update sequence enumerated exhaustively
          Sample      \* keep every Sample-th case (1 = all)

Fields == {"a", "b"}
Leaves ==
  {[k |-> k, f |-> f] : k \in {"SUM", "COUNT", "MIN", "MAX", "AVG"}, f \in Fields}
  \cup {[k |-> "WAVG", f |-> "a", w |-> "b"], [k |-> "WAVG", f |-> "b", w |-> "a"]}
  \cup {[k |-> "BSUM", f |-> "a", lo |-> 1, hi |-> 2], [k |-> "BAVG", f |-> "a", lo |-> 0, hi |-> 1]}
  \cup {[k |-> "CONST", v |-> 2]}
Ifs == {[k |-> "IF", c |-> c, e |-> l] : c \in {0, 1}, l \in {x \in Leaves : x.k \in {"SUM", "AVG", "MAX", "COUNT"} /\ x.f = "a"}}
Ops == {"+", "-", "*", "/", "<", "<=", "=", "<>", ">=", ">", "AND", "OR"}
\* expressions without a value oracle here (quantile estimates, logarithms,
\* time shifts): only the laws "merge of parts = whole", commutativity,
\* associativity and operand preservation are checked for them
LawLeaves == {[k |-> "PTILE", f |-> "a"], [k |-> "LN", f |-> "a"], [k |-> "LOG2", f |-> "b"],
              [k |-> "LOG10", f |-> "a"], [k |-> "SHIFT", f |-> "a"], [k |-> "PTILEOPT", f |-> "a"]}
L1 == Leaves \cup Ifs
Exprs == L1 \cup (IF Depth2 THEN {[k |-> "BIN", op |-> o, l |-> l, r |-> r] : o \in Ops, l \in L1, r \in L1} ELSE {})

Ups1 == {[a |-> a, b |-> b, x |-> x] : a \in {-1, 0, 1, 2}, b \in {-1, 1, 3}, x \in {0, 1}}
RECURSIVE SeqsUpTo(_)
SeqsUpTo(n) == IF n = 0 THEN {<<>>} ELSE SeqsUpTo(n - 1) \cup {Append(s, u) : s \in {t \in SeqsUpTo(n - 1) : Len(t) = n - 1}, u \in Ups1}

Cases == {[e |-> e, ups |-> u] : e \in Exprs \cup LawLeaves, u \in SeqsUpTo(MaxUps)}

Hash(c) == (Len(c.ups) * 7 + Cardinality({i \in DOMAIN c.ups : c.ups[i].a > 0}) * 13 + (IF c.e.k = "BIN" THEN 3 ELSE 1))
Out == LET S == SetToSeq(Cases)
       IN [i \in {j \in DOMAIN S : j % Sample = 0} |-> [e |-> S[i].e, ups |-> S[i].ups, law |-> S[i].e \in LawLeaves,
                                                            exp |-> IF S[i].e \in LawLeaves THEN Unset ELSE Eval(S[i].e, S[i].ups)]]

ASSUME LET idx == SetToSeq(DOMAIN Out)
           lines == [i \in DOMAIN idx |-> Out[idx[i]]]
       IN /\ ndJsonSerialize(IOEnv.ZV_OUT, lines)
          /\ PrintT(<<"ZVGEN", Len(lines), Cardinality(Exprs)>>)

VARIABLE dummy
Init == dummy = 0
Next == UNCHANGED dummy
=============================================================================
