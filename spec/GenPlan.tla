------------------------------- MODULE GenPlan -------------------------------
(***************************************************************************)
(* C11: the program space of the distributed planner and the condition      *)
(* under which a query may be pushed down whole.                            *)
(*                                                                           *)
(* A query descriptor names one choice per clause; lib/plan_checks.py       *)
(* renders it as SQL (several lexical variants), zvpure plans it with and   *)
(* without QueryCluster over mock tables whose points are split over N      *)
(* partitions by the table's partition keys, executes both plans and        *)
(* compares the rows (translation validation per program).                  *)
(*                                                                           *)
(* Confined(q, pk, tg) is the statement's condition for pushing a query     *)
(* down whole: every output group is confined to a single partition, i.e.   *)
(* all points of a group agree on every dimension the partitioning hashes.  *)
(* TLC evaluates it for every descriptor x partition-key set x table        *)
(* grouping; the planner's decision observed in the real code must imply it.*)
(***************************************************************************)
EXTENDS Naturals, Sequences, FiniteSets, SequencesExt, TLC, Json, IOUtils

CONSTANTS Sample,     \* keep every Sample-th descriptor (1 = all)
          Offset      \* which residue class (seeded)

Dims == {"a", "b", "c"}                  \* dimensions of the points

Sel    == {"star", "f", "fg", "sum", "pts"}
Where  == {"none", "eq", "kw", "insub", "insubgb", "insubhaving"}
GroupB == {"all", "a", "b", "ab", "expr", "lossy", "none"}
Period == {0, 2}
Ctab   == {"none", "b"}
Having == {"none", "f"}
Order  == {"none", "fdesc", "a_time", "timedesc_f"}
Lim    == {"none", "l2", "l2o1"}
\* FROM: the table, an ordered and limited sub-query, or a chain of one or two nested
\* grouping sub-queries (chain[1] is the outermost, "all" = no GROUP BY = every dimension
\* of the level below)
Lvl    == {"all", "a", "b", "ab"}
LDims(g) == CASE g = "all" -> {} [] g = "a" -> {"a"} [] g = "b" -> {"b"} [] g = "ab" -> {"a", "b"}
\* dimensions a chain exposes to the query above it (the table is taken to expose all)
RECURSIVE Exp(_)
Exp(ch) == IF ch = <<>> THEN {"a", "b", "c"} ELSE IF Head(ch) = "all" THEN Exp(Tail(ch)) ELSE LDims(Head(ch))
RECURSIVE ValidChain(_)
ValidChain(ch) == ch = <<>> \/ (LDims(Head(ch)) \subseteq Exp(Tail(ch)) /\ ValidChain(Tail(ch)))
Chains == {ch \in {<<g>> : g \in Lvl} \cup {<<g, h>> : <<g, h>> \in Lvl \X Lvl} : ValidChain(ch)}
From   == {[kind |-> "t", chain |-> <<>>], [kind |-> "ord", chain |-> <<>>]} \cup {[kind |-> "chain", chain |-> ch] : ch \in Chains}

GDims(gb) == CASE gb \in {"all", "none"} -> {} [] gb = "a" -> {"a"} [] gb = "b" -> {"b"} [] gb = "lossy" -> {"b"} [] OTHER -> {"a", "b"}
Desc == [sel : Sel, where : Where, gb : GroupB, period : Period, ctab : Ctab, having : Having,
         order : Order, lim : Lim, from : From]

\* combinations the SQL dialect does not accept, or whose meaning the
\* statement does not fix
Valid(q) ==
  /\ (q.ctab # "none" => q.sel # "star" /\ q.order = "none")              \* crosstab renames the fields
  /\ (q.gb = "lossy" => q.from.kind = "t")
  /\ (q.order = "a_time" => q.gb \in {"all", "a", "ab"} /\ (q.from.kind = "t" \/ q.from.chain = <<"ab">>))  \* the sort key exists
  /\ (q.from.kind # "t" => q.where \in {"none", "eq"} /\ q.sel # "pts")
  \* the query only names dimensions its FROM exposes
  /\ (q.from.kind = "chain" => /\ GDims(q.gb) \subseteq Exp(q.from.chain)
                               /\ (q.where = "eq" => "b" \in Exp(q.from.chain))
                               /\ (q.ctab = "b" => "b" \in Exp(q.from.chain)))
  /\ (q.sel = "star" => q.having = "none")

PKs == {{}, {"a"}, {"b"}, {"a", "b"}}                   \* partitionBy of the table
TGs == {"all", "ab", "a"}                                \* what the table itself groups by
TableDims(tg) == CASE tg = "all" -> Dims [] tg = "ab" -> {"a", "b"} [] tg = "a" -> {"a"}
\* the dimensions the routing hashes: the partition keys, or every dimension of the point
EffPK(pk) == IF pk = {} THEN Dims ELSE pk

\* dimensions on which all points of one output group of the innermost
\* table-level query agree (one-to-one parameters of its GROUP BY)
GbParams(gb, avail) == CASE gb = "all" -> avail
                         [] gb = "a" -> {"a"} \cap avail
                         [] gb = "b" -> {"b"} \cap avail
                         [] gb = "ab" -> {"a", "b"} \cap avail
                         [] gb = "expr" -> {}              \* CONCAT('_', a, b) is not one-to-one
                         [] gb = "lossy" -> {}             \* SUBSTR(b, 0, 1): several values of b share a group
                         [] gb = "none" -> {}
\* ... through the chain of sub-queries, innermost first
RECURSIVE ChainParams(_, _)
ChainParams(ch, avail) == IF ch = <<>> THEN avail ELSE GbParams(Head(ch), ChainParams(Tail(ch), avail))
InnerParams(q, tg) ==
  CASE q.from.kind = "t" -> GbParams(q.gb, TableDims(tg))
    [] q.from.kind = "chain" -> GbParams(q.gb, ChainParams(q.from.chain, TableDims(tg)))
    [] q.from.kind = "ord" -> {}                            \* the sub-query is ordered and limited
Confined(q, pk, tg) == EffPK(pk) \subseteq InnerParams(q, tg)
\* the planner may push q down whole only if ...
PushdownSound(q, pk, tg) == q.ctab = "none" /\ q.from.kind # "ord" /\ Confined(q, pk, tg)

ValidDescs == {q \in Desc : Valid(q)}
Kept == LET s == SetToSeq(ValidDescs) IN SelectSeq([i \in DOMAIN s |-> [i |-> i, q |-> s[i]]], LAMBDA x : x.i % Sample = Offset % Sample)
Out == [k \in DOMAIN Kept |->
          [kind |-> "plan", n |-> Kept[k].i, q |-> Kept[k].q,
           sound |-> {[pk |-> pk, tg |-> tg] : <<pk, tg>> \in {x \in PKs \X TGs : PushdownSound(Kept[k].q, x[1], x[2])}}]]

ASSUME /\ ndJsonSerialize(IOEnv.ZV_OUT, Out)
       /\ PrintT(<<"ZVGEN", Len(Out), Cardinality(ValidDescs)>>)

VARIABLE dummy
Init == dummy = 0
Next == UNCHANGED dummy
=============================================================================
